"""Engine E2: symbolic execution of (segments of) real MIR bodies into z3 terms.

Two encodings: 'bv' (bit-vectors, machine semantics directly) and 'int' (mathematical integers with
explicit range obligations / explicit wrap-around where the MIR operation wraps).  Anything outside the
supported MIR subset raises Refuse -> the check is inconclusive, never silently weaker.
"""
import re
import time
import z3
from mir import split_top

INT = {'i8': (8, True), 'i16': (16, True), 'i32': (32, True), 'i64': (64, True), 'i128': (128, True), 'isize': (64, True),
       'u8': (8, False), 'u16': (16, False), 'u32': (32, False), 'u64': (64, False), 'u128': (128, False), 'usize': (64, False)}
VARIANT = {'None': 0, 'Some': 1, 'Ok': 0, 'Err': 1}
PANIC_FNS = ('panic_fmt', 'core::panicking::panic', 'panic', 'assert_failed', 'expect_failed', 'unwrap_failed', 'panic_const',
             'panic_bounds_check', 'core::panicking::', 'slice_index_order_fail', 'slice_end_index_len_fail', 'slice_start_index_len_fail',
             'panic_nounwind', 'panic_explicit', 'panic_display', 'unreachable_display', 'copy_from_slice::len_mismatch_fail')


class Refuse(Exception):
    pass


class Val:
    __slots__ = ('t', 'ty', 'meta')

    def __init__(self, t, ty, meta=None):
        self.t = t; self.ty = ty; self.meta = meta

    def __repr__(self):
        return f'Val({self.t}:{self.ty})'


class Ref(Val):
    """reference to the memory cell `key`"""

    def __init__(self, key, ty='&'):
        super().__init__(key, ty)


class Opaque(Val):
    """a value of a type the translator does not model (struct, array, iterator, ...)"""

    def __init__(self, name, ty):
        super().__init__(name, ty)


class Enum(Val):
    def __init__(self, disc, fields, ty='enum'):
        super().__init__(disc, ty)
        self.meta = fields      # {variant_index: [Val]}


def is_scalar_ty(ty):
    return ty in INT or ty == 'bool'


class Exec:
    def __init__(self, funcs, mode='bv', params=None, inline=None, summaries=None, max_paths=4000):
        self.funcs = funcs
        self.mode = mode
        self.params = params or {}        # const-generic parameter values, e.g. {'K': 4, 'CTEST': False}
        self.inline = inline              # None = inline every crate function with scalar signature
        self.summaries = summaries or {}  # callee -> python function(exec, argv) -> Val  (proved contracts)
        self.inputs = {}                  # key -> Val (named symbolic inputs created on demand)
        self.input_constraints = []       # type-range constraints of Int-mode inputs
        self.calls = []                   # opaque calls: (callee, argv, result)
        # call / symbol numbering is unique across executor instances of one process, so that states carried from one
        # segment run into another can never have their symbols captured by a fresh symbol of the same name
        Exec._seq = getattr(Exec, '_seq', 0) + 1000
        self.fresh = Exec._seq
        self.max_paths = max_paths
        self.npaths = 0
        self.call_records = {}
        self.path_states = []             # (pc, final state) of every completed path of the outermost run
        self.summary_facts = []           # constraints introduced by call summaries (proved contracts)
        self.branch_log = []              # (function, bb, discriminant Val) for constant-time queries
        self.index_log = []               # (function, bb, index term)

    # ------------------------------------------------------------------ arithmetic back end
    def const(self, v, ty):
        if ty == 'bool':
            return Val(z3.BoolVal(bool(v)), 'bool')
        w, sg = INT[ty]
        if self.mode == 'bv':
            return Val(z3.BitVecVal(v, w), ty)
        return Val(z3.IntVal(v), ty)

    def sym(self, name, ty):
        if ty == 'bool':
            return Val(z3.Bool(name), 'bool')
        w, sg = INT[ty]
        if self.mode == 'bv':
            return Val(z3.BitVec(name, w), ty)
        x = z3.Int(name)
        self.input_constraints.append(self.in_range(x, ty))
        return Val(x, ty)

    def in_range(self, x, ty):
        w, sg = INT[ty]
        if sg:
            return z3.And(x >= -(1 << (w - 1)), x < (1 << (w - 1)))
        return z3.And(x >= 0, x < (1 << w))

    def wrap(self, x, ty):
        w, sg = INT[ty]
        if sg:
            return ((x + (1 << (w - 1))) % (1 << w)) - (1 << (w - 1))
        return x % (1 << w)

    def concrete(self, v):
        t = z3.simplify(v.t)
        if z3.is_bv_value(t):
            w, sg = INT[v.ty]
            return t.as_signed_long() if sg else t.as_long()
        if z3.is_int_value(t):
            return t.as_long()
        if z3.is_true(t):
            return 1
        if z3.is_false(t):
            return 0
        return None

    def binop(self, op, a, b):
        if a.ty == 'bool':
            f = {'BitAnd': z3.And, 'BitOr': z3.Or, 'BitXor': z3.Xor, 'Eq': lambda x, y: x == y, 'Ne': lambda x, y: x != y,
                 # false < true
                 'Le': lambda x, y: z3.Or(z3.Not(x), y), 'Lt': lambda x, y: z3.And(z3.Not(x), y), 'Ge': lambda x, y: z3.Or(x, z3.Not(y)), 'Gt': lambda x, y: z3.And(x, z3.Not(y))}.get(op)
            if not f:
                raise Refuse('bool op ' + op)
            return Val(f(a.t, b.t), 'bool')
        if a.ty not in INT:
            raise Refuse(f'binop {op} on {a.ty}')
        w, sg = INT[a.ty]
        x, y = a.t, b.t
        cmpops = ('Lt', 'Le', 'Gt', 'Ge', 'Eq', 'Ne')
        if self.mode == 'bv':
            if op in ('Shl', 'Shr', 'ShlUnchecked', 'ShrUnchecked'):
                wy = y.size()
                y = z3.Extract(w - 1, 0, y) if wy > w else (z3.ZeroExt(w - wy, y) if wy < w else y)
                if op.startswith('Shl'):
                    return Val(x << y, a.ty)
                return Val((x >> y) if sg else z3.LShR(x, y), a.ty)
            if op in ('Add', 'Sub', 'Mul', 'AddUnchecked', 'SubUnchecked', 'MulUnchecked'):
                return Val({'A': x + y, 'S': x - y, 'M': x * y}[op[0]], a.ty)
            if op in ('AddWithOverflow', 'SubWithOverflow', 'MulWithOverflow'):
                if op[0] == 'A':
                    r = x + y
                    ok = z3.And(z3.BVAddNoOverflow(x, y, sg), z3.BVAddNoUnderflow(x, y)) if sg else z3.BVAddNoOverflow(x, y, False)
                elif op[0] == 'S':
                    r = x - y
                    ok = z3.And(z3.BVSubNoOverflow(x, y), z3.BVSubNoUnderflow(x, y, True)) if sg else z3.BVSubNoUnderflow(x, y, False)
                else:
                    r = x * y
                    ok = z3.And(z3.BVMulNoOverflow(x, y, sg), z3.BVMulNoUnderflow(x, y)) if sg else z3.BVMulNoOverflow(x, y, False)
                return Val((Val(r, a.ty), Val(z3.Not(ok), 'bool')), 'tuple')
            if op == 'BitAnd':
                return Val(x & y, a.ty)
            if op == 'BitOr':
                return Val(x | y, a.ty)
            if op == 'BitXor':
                return Val(x ^ y, a.ty)
            if op == 'Div':
                return Val((x / y) if sg else z3.UDiv(x, y), a.ty)
            if op == 'Rem':
                return Val(z3.SRem(x, y) if sg else z3.URem(x, y), a.ty)
            if op in cmpops:
                c = {'Lt': (x < y) if sg else z3.ULT(x, y), 'Le': (x <= y) if sg else z3.ULE(x, y),
                     'Gt': (x > y) if sg else z3.UGT(x, y), 'Ge': (x >= y) if sg else z3.UGE(x, y),
                     'Eq': x == y, 'Ne': x != y}[op]
                return Val(c, 'bool')
            raise Refuse('bv op ' + op)
        # ---- mathematical-integer encoding
        if op in ('Shl', 'Shr', 'ShlUnchecked', 'ShrUnchecked'):
            k = self.concrete(b)
            if k is None:
                raise Refuse('int-mode shift by a non-constant')
            if op.startswith('Shr'):
                r = Val(x / (1 << k), a.ty)     # z3 Int division by a positive constant is floor division
                if sg and k == w - 1:
                    r.meta = ('signmask', x)
                return r
            # value-preserving shift: exact product + an *encoding* obligation that nothing is shifted out
            # (the Int encoding is sound for the machine semantics only if that obligation is unsat)
            r = x * (1 << k)
            pc, obls = self._ctx
            obls.append({'fn': self.curf.name, 'bb': self.curbb, 'kind': 'encoding', 'msg': f'<< {k} shifts no significant bit out (Int encoding soundness)',
                         'cond': z3.And(pc, z3.Not(self.in_range(r, a.ty)))})
            return Val(r, a.ty)
        if op in ('Add', 'Sub', 'Mul', 'AddUnchecked', 'SubUnchecked', 'MulUnchecked'):
            r = {'A': x + y, 'S': x - y, 'M': x * y}[op[0]]
            return Val(self.wrap(r, a.ty) if 'Unchecked' not in op else r, a.ty)
        if op in ('AddWithOverflow', 'SubWithOverflow', 'MulWithOverflow'):
            r = {'A': x + y, 'S': x - y, 'M': x * y}[op[0]]
            return Val((Val(r, a.ty), Val(z3.Not(self.in_range(r, a.ty)), 'bool')), 'tuple')
        if op == 'BitAnd':
            for p, q in ((a, b), (b, a)):
                if p.meta and p.meta[0] == 'signmask':
                    return Val(z3.If(p.meta[1] < 0, q.t, z3.IntVal(0)), a.ty)
            for p, q in ((a, b), (b, a)):
                c = self.concrete(q)
                if c is not None and c >= 0 and (c & (c + 1)) == 0:
                    return Val(self.wrap(p.t, 'u128') % (c + 1) if False else (p.t % (c + 1)), a.ty)
            raise Refuse('int-mode general BitAnd')
        if op in cmpops:
            c = {'Lt': x < y, 'Le': x <= y, 'Gt': x > y, 'Ge': x >= y, 'Eq': x == y, 'Ne': x != y}[op]
            return Val(c, 'bool')
        raise Refuse('int op ' + op)

    def cast(self, v, ty):
        if ty not in INT:
            raise Refuse('cast to ' + ty)
        w2, sg2 = INT[ty]
        if v.ty == 'bool':
            one = self.const(1, ty).t; zero = self.const(0, ty).t
            return Val(z3.If(v.t, one, zero), ty)
        if v.ty not in INT:
            raise Refuse('cast from ' + str(v.ty))
        w1, sg1 = INT[v.ty]
        t = v.t
        if self.mode == 'bv':
            if w2 < w1:
                t = z3.Extract(w2 - 1, 0, t)
            elif w2 > w1:
                t = (z3.SignExt if sg1 else z3.ZeroExt)(w2 - w1, t)
            return Val(t, ty)
        lossless = (w2 > w1 and (sg2 or not sg1)) or (w2 == w1 and sg1 == sg2)
        return Val(t if lossless else self.wrap(t, ty), ty)

    def ite(self, c, a, b):
        if a is None:
            return b
        if b is None:
            return a
        if isinstance(a, Enum) or isinstance(b, Enum):
            if not (isinstance(a, Enum) and isinstance(b, Enum)):
                raise Refuse('ite enum/non-enum')
            fields = {}
            for k in set(a.meta) | set(b.meta):
                fa, fb = a.meta.get(k), b.meta.get(k)
                if fa is None or fb is None:
                    fields[k] = fa or fb
                else:
                    fields[k] = [self.ite(c, x, y) for x, y in zip(fa, fb)]
            return Enum(z3.If(c, a.t, b.t), fields, a.ty)
        if isinstance(a.t, tuple):
            return Val(tuple(self.ite(c, x, y) for x, y in zip(a.t, b.t)), 'tuple')
        if isinstance(a, (Ref, Opaque)) or isinstance(b, (Ref, Opaque)):
            if a.t == b.t:
                return a
            raise Refuse('ite over references/opaque values')
        return Val(z3.If(c, a.t, b.t), a.ty)

    # ------------------------------------------------------------------ constants / operands / places
    def mkconst(self, txt, hint=None):
        txt = txt.strip()
        m = re.match(r'^const (-?\d+)_(\w+)$', txt)
        if m:
            return self.const(int(m.group(1)), m.group(2))
        m = re.match(r'^const ([iu](?:8|16|32|64|size))::(MIN|MAX)$', txt)
        if m:
            w, sg = INT[m.group(1)]
            lo, hi = (-(1 << (w - 1)), (1 << (w - 1)) - 1) if sg else (0, (1 << w) - 1)
            return self.const(lo if m.group(2) == 'MIN' else hi, m.group(1))
        if txt == 'const true':
            return self.const(1, 'bool')
        if txt == 'const false':
            return self.const(0, 'bool')
        m = re.match(r'^const ((?:\w+::)*[A-Z][A-Z_0-9]*)$', txt)
        if m and m.group(1).split('::')[-1] not in self.params:
            # a named constant of the crate (Q, D, encodings::pk_decode::BLQD, ml_dsa_44::GAMMA1, ...): evaluate its MIR body
            segs = m.group(1).split('::')
            cands = []
            for k in range(len(segs)):
                nm = '@const:' + '::'.join(segs[k:])
                if nm in self.funcs:
                    cands = [nm]
                    break
            if cands and getattr(self, '_const_depth', 0) < 6:
                self._const_depth = getattr(self, '_const_depth', 0) + 1
                saved = (getattr(self, 'curf', None), getattr(self, 'curbb', None), self.cut_loops, len(self.path_states))
                res = []
                try:
                    self.cut_loops = False
                    res, obl = self.run(cands[0], [])
                except Refuse:
                    res = []
                finally:
                    self.cut_loops = saved[2]
                    self.curf, self.curbb = saved[0], saved[1]
                    del self.path_states[saved[3]:]
                    self._const_depth -= 1
                if len(res) == 1 and res[0][1] is not None:
                    return res[0][1]
        m = re.match(r'^const ([A-Z][A-Z_0-9]*)$', txt)
        if m:
            name = m.group(1)
            if name in self.params:
                v = self.params[name]
                return self.const(v, 'bool' if isinstance(v, bool) else (hint if hint in INT else 'usize'))
            key = 'param:' + name
            if key not in self.inputs:
                self.inputs[key] = self.sym(key, hint if (hint in INT or hint == 'bool') else 'usize')
            return self.inputs[key]
        m = re.match(r'^const "(.*)"$', txt, re.S)
        if m:
            return Opaque('str:' + m.group(1), '&str')
        m = re.match(r'^const \{(alloc\d+): (&.*)\}$', txt)
        if m:
            return Ref(m.group(1), m.group(2))
        m = re.match(r'^const (.*)$', txt)
        if m:
            return Opaque('const:' + m.group(1), hint or '?')
        raise Refuse('const ' + txt)

    def parse_place(self, p):
        """-> nested tuple tree"""
        p = p.strip()
        # strip a full outer parenthesis
        while p.startswith('(') and self._matching(p, 0) == len(p) - 1:
            inner = p[1:-1].strip()
            # (X.N: ty)  /  (X as Variant)  /  (*X)
            if inner.startswith('*'):
                return ('deref', self.parse_place(inner[1:]))
            m = re.match(r'^(.*) as (\w+)$', inner)
            if m and self._balanced(m.group(1)):
                return ('downcast', self.parse_place(m.group(1)), m.group(2))
            # field with type annotation: find the top-level ": "
            idx = self._top_colon(inner)
            if idx is not None:
                lhs, ty = inner[:idx], inner[idx + 1:].strip()
                k = lhs.rfind('.')
                return ('field', self.parse_place(lhs[:k]), lhs[k + 1:], ty)
            p = inner
        if p.startswith('*'):
            return ('deref', self.parse_place(p[1:]))
        if p.endswith(']'):
            j = self._matching_rev(p, len(p) - 1)
            base, idx = p[:j], p[j + 1:-1]
            return ('index', self.parse_place(base), idx.strip())
        m = re.match(r'^(.+)\.(\d+)$', p)
        if m and self._balanced(m.group(1)):
            return ('field', self.parse_place(m.group(1)), m.group(2), None)
        if re.match(r'^_\d+$', p):
            return ('local', p)
        raise Refuse('place ' + p)

    @staticmethod
    def _matching(s, i):
        d = 0
        for j in range(i, len(s)):
            if s[j] in '([':
                d += 1
            elif s[j] in ')]':
                d -= 1
                if d == 0:
                    return j
        return -1

    @staticmethod
    def _matching_rev(s, i):
        d = 0
        for j in range(i, -1, -1):
            if s[j] in ')]':
                d += 1
            elif s[j] in '([':
                d -= 1
                if d == 0:
                    return j
        return -1

    @staticmethod
    def _balanced(s):
        d = 0
        for ch in s:
            if ch in '([':
                d += 1
            elif ch in ')]':
                d -= 1
                if d < 0:
                    return False
        return d == 0

    @staticmethod
    def _top_colon(s):
        d = 0
        for i, ch in enumerate(s):
            if ch in '([<{':
                d += 1
            elif ch in ')]>}':
                d -= 1
            elif ch == ':' and d == 0 and i + 1 < len(s) and s[i + 1] == ' ' and (i == 0 or s[i - 1] != ':'):
                return i
        return None

    def idx_str(self, v):
        c = self.concrete(v)
        return str(c) if c is not None else z3.simplify(v.t).sexpr()

    def place_key(self, st, tree):
        """-> (key, type-hint) ; the symbolic address of the place"""
        k = tree[0]
        if k == 'local':
            return tree[1], self.curf.locals.get(tree[1])
        if k == 'deref':
            v = self.read_tree(st, tree[1])
            if isinstance(v, Ref):
                return v.t, (v.ty[1:].replace('mut ', '').strip() if v.ty.startswith('&') else None)
            raise Refuse(f'deref of non-reference {v}')
        if k == 'field':
            bk, _ = self.place_key(st, tree[1])
            return f'{self.key_str(bk)}.{tree[2]}', tree[3]
        if k == 'downcast':
            bk, _ = self.place_key(st, tree[1])
            return f'{self.key_str(bk)}@{tree[2]}', None
        if k == 'index':
            bk, bty = self.place_key(st, tree[1])
            mci = re.match(r'^(\d+) of \d+$', tree[2])
            if mci:
                iv = self.const(int(mci.group(1)), 'usize')
            else:
                iv = self.operand(st, tree[2]) if not re.match(r'^_\d+$', tree[2]) else st[tree[2]]
            self.index_log.append((self.curf.name, self.curbb, iv))
            if self.observer is not None:
                self.observer.on_index(self, self.curf.name, self.curbb, iv, self._ctx[0] if getattr(self, '_ctx', None) else None, st)
            ety = None
            if bty:
                m = re.match(r'^\[(.+); .+\]$', bty) or re.match(r'^\[(.+)\]$', bty)
                if m:
                    ety = m.group(1)
            return ('@idx', bk, iv), ety
        raise Refuse('place kind ' + k)

    def read_tree(self, st, tree):
        # tuple / enum field of a local value held directly
        if tree[0] == 'field' and tree[1][0] == 'local':
            base = st.get(tree[1][1])
            if base is not None and isinstance(base.t, tuple):
                return base.t[int(tree[2])]
        if tree[0] == 'field' and tree[1][0] == 'downcast':
            basek = tree[1][1]
            base = self.read_tree(st, basek)
            if isinstance(base, Enum):
                vi = VARIANT.get(tree[1][2])
                fl = base.meta.get(vi)
                if fl is None:
                    raise Refuse(f'enum variant {tree[1][2]} has no modelled payload')
                return fl[int(tree[2])]
        op = self._opaque_projection(st, tree)
        if op is not None:
            return op
        if tree[0] == 'index' and st.get('@arrays'):
            try:
                key0, ty0 = self.place_key(st, tree)
                if isinstance(key0, tuple) and self.key_str(key0[1]) in st['@arrays']:
                    return self.read_key(st, key0, ty0)
            except Refuse:
                pass
        if tree[0] == 'index':
            # element of an array value held directly (e.g. a by-value [u8; 3] argument or to_le_bytes() result)
            try:
                base = self.read_tree(st, tree[1]) if tree[1][0] in ('local', 'field') and (tree[1][0] != 'local' or tree[1][1] in st) else None
            except Refuse:
                base = None
            if isinstance(base, Opaque) and not isinstance(base, Ref) and not (isinstance(base.meta, dict)) and self.cut_loops:
                # element of an opaque array value (e.g. a buffer filled by an uninterpreted call): named after that value
                mci = re.match(r'^(\d+) of \d+$', tree[2])
                iv = self.const(int(mci.group(1)), 'usize') if mci else (st[tree[2]] if re.match(r'^_\d+$', tree[2]) else self.operand(st, tree[2]))
                self._note_index(iv, st)
                m_el = re.match(r'^\[(.+); .+\]$', str(base.ty)) or re.match(r'^\[(.+)\]$', str(base.ty))
                ety = m_el.group(1) if m_el else None
                name = f'{base.t}[{self.idx_str(iv)}]'
                if name in self.inputs:
                    return self.inputs[name]
                if ety in INT or ety == 'bool':
                    v = self.sym(name, ety)
                elif ety:
                    v = Opaque(name, ety)
                else:
                    v = None
                if v is not None:
                    self.inputs[name] = v
                    return v
            if base is not None and isinstance(base.t, tuple) and base.ty in ('array', 'tuple'):
                mci = re.match(r'^(\d+) of \d+$', tree[2])
                iv = self.const(int(mci.group(1)), 'usize') if mci else (st[tree[2]] if re.match(r'^_\d+$', tree[2]) else self.operand(st, tree[2]))
                c = self.concrete(iv)
                if c is not None:
                    return base.t[c]
                self._note_index(iv, st)
                out = base.t[-1]
                for i in range(len(base.t) - 2, -1, -1):
                    out = self.ite(iv.t == self.const(i, iv.ty).t, base.t[i], out)
                return out
        key, ty = self.place_key(st, tree)
        return self.read_key(st, key, ty)

    def _note_index(self, iv, st):
        self.index_log.append((self.curf.name, self.curbb, iv))
        if self.observer is not None:
            self.observer.on_index(self, self.curf.name, self.curbb, iv, self._ctx[0] if getattr(self, '_ctx', None) else None, st)

    def _opaque_projection(self, st, tree):
        """field / downcast chains rooted in a local that holds an Opaque value (e.g. the result of an uninterpreted call)
        are named after that value: call:sig_decode#1@Ok.0.1"""
        path = []
        t = tree
        ty = None
        while t[0] in ('field', 'downcast'):
            if t[0] == 'field':
                path.append('.' + t[2])
                if ty is None:
                    ty = t[3]
            else:
                path.append('@' + t[2])
            t = t[1]
        if not path or t[0] != 'local':
            return None
        base = st.get(t[1])
        if not isinstance(base, Opaque) or isinstance(base, Ref):
            return None
        if base.meta and isinstance(base.meta, dict) and len(path) == 1 and path[0][0] == '.':
            # struct aggregate built in this body: field by position is unknown, by name not available in MIR -> fall through
            pass
        name = base.t + ''.join(reversed(path))
        if name in self.inputs:
            return self.inputs[name]
        if ty and (ty in INT or ty == 'bool'):
            v = self.sym(name, ty)
        elif ty and ty.startswith('&'):
            v = Ref('*' + name, ty)
        else:
            v = Opaque(name, ty or '?')
        self.inputs[name] = v
        return v

    def show(self, v, st=None, depth=0):
        """canonical provenance string of a value (used by the dataflow-skeleton obligations)"""
        if v is None:
            return 'None'
        if isinstance(v, Ref):
            key = v.t
            if st is not None and isinstance(key, str) and key in st and depth < 6:
                return '&' + self.show(st[key], st, depth + 1)
            if st is not None and isinstance(key, str) and depth < 6:
                mm = re.match(r'^(_\d+)((?:\[\d+\]|\.\d+)+)$', key)
                if mm and mm.group(1) in st:
                    return '&' + self.show(st[mm.group(1)], st, depth + 1) + mm.group(2)
            return '&' + str(key)
        if isinstance(v, Enum):
            d = z3.simplify(v.t)
            if z3.is_bv_value(d) or z3.is_int_value(d):
                di = d.as_long()
                pl = v.meta.get(di)
                return f'variant{di}(' + (', '.join(self.show(x, st, depth + 1) for x in pl) if pl else '') + ')'
            return 'enum(' + d.sexpr() + ')'
        if isinstance(v, Opaque):
            if v.meta and isinstance(v.meta, dict):
                return str(v.t) + '{' + ', '.join(f'{k}: {self.show(x, st, depth + 1)}' for k, x in v.meta.items()) + '}'
            return str(v.t)
        if isinstance(v.t, tuple):
            return '[' + ', '.join(self.show(x, st, depth + 1) for x in v.t) + ']'
        c = self.concrete(v)
        if c is not None:
            return str(c)
        return z3.simplify(v.t).sexpr().replace('\n', ' ')

    def init_params(self, f, named=None):
        """initial state for a whole-body run: every parameter named after its debug name"""
        st = {}
        for l, t in f.params:
            nm = f.debug.get(l, l)
            if '{closure@' in t:
                continue            # closure environment: set up by run() from the debug names of the captures
            if named and nm in named:
                st[l] = named[nm]
            elif t in INT or t == 'bool':
                key = 'arg:' + nm
                if key not in self.inputs:
                    self.inputs[key] = self.sym(key, t)
                st[l] = self.inputs[key]
            elif t.startswith('&'):
                st[l] = Ref(nm if nm != l else 'p' + l, t)      # an unnamed parameter: its referent must not share the local's own key
            else:
                st[l] = Opaque(nm if nm != l else 'p' + l, t)
        return st

    def read_key(self, st, key, ty):
        if isinstance(key, tuple):      # ('@idx', basekey, indexVal)
            _, bk, iv = key
            arrs = st.get('@arrays', {})
            bks = self.key_str(bk)
            if bks in arrs:
                return Val(z3.Select(arrs[bks], iv.t), ty or 'i32')
            flat = f'{self.key_str(bk)}[{self.idx_str(iv)}]'
            if flat in st:
                return st[flat]
            return self.named_input(st, flat, ty)
        if key in st:
            return st[key]
        return self.named_input(st, key, ty)

    def key_str(self, key):
        if isinstance(key, tuple):
            return f'{self.key_str(key[1])}[{self.idx_str(key[2])}]'
        return key

    def named_input(self, st, key, ty):
        name = self.alias.get(key, key) if isinstance(key, str) else key
        # resolve alias prefixes (captured environment fields -> source names)
        for pre, nm in self.alias.items():
            if isinstance(name, str) and name.startswith(pre + '.') or (isinstance(name, str) and name.startswith(pre + '[')):
                name = nm + name[len(pre):]
                break
        full = f'{self.scope}{name}'
        if full in self.inputs:
            return self.inputs[full]
        if ty and ty.startswith('&'):
            v = Ref(f'{name}*', ty)
        elif ty and (ty in INT or ty == 'bool'):
            v = self.sym('in:' + full, ty)
        elif ty is None:
            raise Refuse(f'read of untyped memory {key}')
        else:
            v = Opaque('mem:' + full, ty)
        self.inputs[full] = v
        return v

    def operand(self, st, txt):
        txt = txt.strip()
        pm = re.match(r'^const (.+)::promoted\[(\d+)\]$', txt)
        if pm:
            flat = ''
            dd = 0
            for ch in pm.group(1):
                if ch == '<':
                    dd += 1
                elif ch == '>':
                    dd -= 1
                elif dd == 0:
                    flat += ch
            segs = [x for x in flat.split('::') if re.match(r'^(\w+|\{closure#\d+\})$', x)]
            k0 = max([i for i, x in enumerate(segs) if re.match(r'^\w+$', x)] or [0])
            fname_ = '::'.join(segs[k0:]) if segs else ''
            suffix = fname_ + f'::promoted[{pm.group(2)}]'
            cands = [n for n in self.funcs if n == suffix or n.endswith('::' + suffix)]
            first = self.curf.name.split('::')[0]
            own = [n for n in cands if n.startswith(self.curf.name.split('::{')[0])] or [n for n in cands if n.startswith(first + '::')] or cands
            if len(own) != 1:
                raise Refuse(f'promoted constant {txt}: {cands}')
            pf = self.funcs[own[0]]
            pst = {}
            saved = self.curf
            self.curf = pf
            for line in pf.blocks.get('bb0', []):
                mm = re.match(r'^(_\d+) = (.*)$', line)
                if mm:
                    pst[mm.group(1)] = self.rvalue(pst, mm.group(2), pf.locals.get(mm.group(1)))
            self.curf = saved
            r = pst.get('_0')
            if isinstance(r, Ref) and r.t in pst:
                key = f'promoted:{own[0]}'
                st[key] = pst[r.t]
                return Ref(key, r.ty)
            return r
        if txt.startswith('const '):
            return self.mkconst(txt, self.hint)
        txt = re.sub(r'^(no_retag )?(copy|move) ', '', txt)
        return self.read_tree(st, self.parse_place(txt))

    def write(self, st, place_txt, v):
        tree = self.parse_place(place_txt)
        if tree[0] == 'local':
            st[tree[1]] = v
            return
        if tree[0] == 'field' and tree[1][0] == 'local' and tree[1][1] in st and isinstance(st[tree[1][1]].t, tuple):
            old = list(st[tree[1][1]].t); old[int(tree[2])] = v
            st[tree[1][1]] = Val(tuple(old), 'tuple')
            return
        key, ty = self.place_key(st, tree)
        if isinstance(key, tuple):
            _, bk, iv = key
            arrs = st.get('@arrays', {})
            bks = self.key_str(bk)
            if bks in arrs:
                arrs = dict(arrs); arrs[bks] = z3.Store(arrs[bks], iv.t, v.t); st['@arrays'] = arrs
                return
            if self.cut_loops and self.lazy_arrays and self.concrete(iv) is None and isinstance(v, Val) and not isinstance(v, (Ref, Opaque)) and v.ty in INT and self.mode == 'bv':
                # skeleton mode: an array written at a symbolic index becomes a z3 array created on demand
                arrs = dict(arrs)
                arrs[bks] = z3.Store(z3.Array('mem:' + bks, z3.BitVecSort(iv.t.size()), z3.BitVecSort(INT[v.ty][0])), iv.t, v.t)
                st['@arrays'] = arrs
                return
            if self.concrete(iv) is None:
                if not self.cut_loops:
                    raise Refuse(f'write through a symbolic index into an untracked array {self.key_str(bk)}')
                # skeleton mode: the array becomes an opaque `store(old, index, value)` term
                ks = self.key_str(bk)
                old = st.get(ks)
                st[ks] = Opaque(f'store({self.show(old, st, 3) if old is not None else ks}, {self.idx_str(iv)}, {self.show(v, st, 3)})', 'array')
                return
            st[f'{self.key_str(bk)}[{self.idx_str(iv)}]'] = v
            return
        st[key] = v

    # ------------------------------------------------------------------ rvalues
    BINOPS = ('Add', 'Sub', 'Mul', 'Div', 'Rem', 'BitAnd', 'BitOr', 'BitXor', 'Shl', 'Shr', 'Lt', 'Le', 'Gt', 'Ge', 'Eq', 'Ne',
              'AddWithOverflow', 'SubWithOverflow', 'MulWithOverflow', 'AddUnchecked', 'SubUnchecked', 'MulUnchecked',
              'ShlUnchecked', 'ShrUnchecked')

    def rvalue(self, st, rv, dst_ty):
        rv = rv.strip()
        self.hint = dst_ty
        m = re.match(r'^(\w+)\((.*)\)$', rv, re.S)
        if m and m.group(1) in self.BINOPS:
            a, b = split_top(m.group(2))
            self.hint = None
            av = self.operand(st, a) if not a.strip().startswith('const') else None
            bv = self.operand(st, b) if not b.strip().startswith('const') else None
            if av is None:
                if bv is not None:
                    self.hint = bv.ty
                else:
                    # both operands are constants: the typed literal (`const 8_usize`) gives the operand type, not the destination
                    mt = re.search(r'const -?\d+_(\w+)$', b.strip()) or re.search(r'const -?\d+_(\w+)$', a.strip())
                    self.hint = mt.group(1) if mt else (dst_ty if m.group(1) not in ('Lt', 'Le', 'Gt', 'Ge', 'Eq', 'Ne') else 'usize')
                av = self.operand(st, a)
            if bv is None:
                self.hint = av.ty
                bv = self.operand(st, b)
            return self.binop(m.group(1), av, bv)
        if m and m.group(1) == 'Neg':
            v = self.operand(st, m.group(2))
            if self.mode == 'bv':
                return Val(-v.t, v.ty)
            return Val(self.wrap(-v.t, v.ty), v.ty)
        if m and m.group(1) == 'Not':
            v = self.operand(st, m.group(2))
            if v.ty == 'bool':
                return Val(z3.Not(v.t), 'bool')
            if self.mode == 'bv':
                return Val(~v.t, v.ty)
            raise Refuse('int-mode bitwise Not')
        if m and m.group(1) == 'discriminant':
            v = self.read_tree(st, self.parse_place(m.group(2)))
            if isinstance(v, Enum):
                return Val(v.t, 'isize')
            if isinstance(v, Opaque):
                key = f'disc({v.t})'
                if key not in self.inputs:
                    self.inputs[key] = self.sym(key, 'isize')
                return self.inputs[key]
            raise Refuse('discriminant of non-enum ' + repr(v))
        m = re.match(r'^(.*) as (\w+) \(IntToInt\)$', rv)
        if m:
            return self.cast(self.operand(st, m.group(1)), m.group(2))
        m = re.match(r'^(.*) as ([^()]+|&.*) \((PointerCoercion.*|Transmute|PtrToPtr)\)$', rv)
        if m:
            return self.operand(st, m.group(1))
        m = re.match(r'^(?:Option|Result)::<.*?>::(Some|Ok|Err)\((.*)\)$', rv, re.S)
        if m:
            vi = VARIANT[m.group(1)]
            self.hint = None
            return Enum(self.const(vi, 'isize').t, {vi: [self.operand(st, m.group(2))]})
        if re.match(r'^Option::<.*>::None$', rv):
            return Enum(self.const(0, 'isize').t, {})
        if rv.startswith('(') and not re.match(r'^\((\*|_\d+\.|\(|_\d+ as )', rv):
            parts = split_top(rv[1:-1])
            self.hint = None
            return Val(tuple(self.operand(st, p) for p in parts), 'tuple')
        if rv == '()':
            return Val((), 'tuple')
        m = re.match(r'^&(?:raw )?(mut |const )?(.*)$', rv)
        if m:
            key, ty = self.place_key(st, self.parse_place(m.group(2)))
            return Ref(key if isinstance(key, str) else self.key_str(key), ('&mut ' if m.group(1) == 'mut ' else '&') + (ty or ''))
        m = re.match(r'^(?:PtrMetadata|Len)\((?:copy |move )?(.*)\)$', rv)
        if m:
            v = self.read_tree(st, self.parse_place(m.group(1).lstrip('*'))) if not m.group(1).startswith('(*') else self.read_tree(st, self.parse_place(m.group(1)[2:-1]))
            nm = v.t if isinstance(v, (Ref, Opaque)) else str(v.t)
            key = f'len({nm})'
            if key not in self.inputs:
                self.inputs[key] = self.sym(key, 'usize')
            return self.inputs[key]
        m = re.match(r'^\[(.*); (.*)\]$', rv)
        if m and not rv.startswith('[copy') and not rv.startswith('[move'):
            self.hint = None
            try:
                e = self.operand(st, m.group(1))
                return Opaque(f'repeat({self.show(e)})', dst_ty or 'array')
            except Refuse:
                return Opaque('repeat(?)', dst_ty or 'array')
        m = re.match(r'^\{closure@([^}]*)\}(?: \{ (.*) \})?$', rv, re.S)
        if m:
            caps = {}
            for part in split_top(m.group(2) or ''):
                if ':' in part:
                    nm, op = part.split(':', 1)
                    try:
                        caps[nm.strip()] = self.operand(st, op)
                    except Refuse:
                        caps[nm.strip()] = Opaque('?' + op.strip(), '?')
            o = Opaque('closure@' + m.group(1), 'closure')
            o.meta = caps
            return o
        if rv.startswith('[') and rv.endswith(']'):
            parts = split_top(rv[1:-1])
            return Val(tuple(self.operand(st, p) for p in parts), 'array')
        m = re.match(r'^((?:\w+::)*[A-Z]\w*)(?:::<.*?>)?\((.*)\)$', rv, re.S)
        if m and m.group(1).split('::')[-1] not in self.BINOPS + ('Neg', 'Not', 'Len', 'PtrMetadata', 'CopyForDeref', 'ShallowInitBox', 'UbChecks', 'SizeOf', 'AlignOf', 'OffsetOf', 'Cmp', 'Offset', 'Some', 'Ok', 'Err'):
            # tuple-struct constructor, e.g. R(move _3)
            fields = {}
            for i, part in enumerate(split_top(m.group(2))):
                self.hint = None
                try:
                    fields[str(i)] = self.operand(st, part)
                except Refuse:
                    fields[str(i)] = Opaque('?' + part.strip(), '?')
            o = Opaque('struct:' + m.group(1), 'struct:' + m.group(1))
            o.meta = fields
            return o
        m = re.match(r'^([\w:]+)(?:::<.*?>)? \{ (.*) \}$', rv, re.S)
        if m:
            fields = {}
            for part in split_top(m.group(2)):
                if ':' in part:
                    nm, op = part.split(':', 1)
                    self.hint = None
                    try:
                        fields[nm.strip()] = self.operand(st, op)
                    except Refuse:
                        fields[nm.strip()] = Opaque('?' + op.strip(), '?')
            o = Opaque('struct:' + m.group(1), 'struct:' + m.group(1))
            o.meta = fields
            return o
        return self.operand(st, rv)

    # ------------------------------------------------------------------ execution
    def run(self, fname, args=None, start='bb0', stop=(), init=None, alias=None, scope='', depth=0, pc0=None):
        """symbolically execute `fname` from block `start` until `return` or a block in `stop`.
        returns (results, obligations):
          results     = [(path_condition, return Val | state dict with '@stop')]
          obligations = [dict(fn, bb, kind, msg, cond)]   cond = path condition under which the panic/assert fires"""
        if fname not in self.funcs:
            raise Refuse('no MIR body for ' + fname)
        f = self.funcs[fname]
        st0 = dict(init or {})
        for (l, t), a in zip(f.params, args or []):
            st0[l] = a
        results = []
        obligations = []
        saved = (getattr(self, 'curf', None), getattr(self, 'alias', {}), getattr(self, 'scope', ''), getattr(self, 'curbb', None))
        self.alias = dict(alias or {})
        self.scope = scope
        # closure environments: debug names of captured variables
        if f.params and ('{closure' in f.params[0][1]):
            envl = f.params[0][0]
            byref = f.params[0][1].startswith('&')
            if envl not in st0 or st0[envl] is None:
                st0[envl] = Ref('env') if byref else None
            for place, name in f.debug.items():
                m = re.match(r'^\(\*\(\(\*' + envl + r'\)\.(\d+): (&.*)\)\)$', place) if byref else re.match(r'^\(\*\(' + envl + r'\.(\d+): (&.*)\)\)$', place)
                if m:
                    base = 'env' if byref else envl
                    st0.setdefault(f'{base}.{m.group(1)}', Ref(name, m.group(2)))
                    continue
                m = re.match(r'^\(\(\*' + envl + r'\)\.(\d+): (.*)\)$', place) if byref else re.match(r'^\(' + envl + r'\.(\d+): (.*)\)$', place)
                if m:
                    base = 'env' if byref else envl
                    self.alias[f'{base}.{m.group(1)}'] = name
        pc0 = z3.BoolVal(True) if pc0 is None else pc0

        def go(bb, st, pc, steps):
            self.curf = f
            self.npaths += 0
            while True:
                self.curbb = bb
                trail = st.get('@trail', ())
                if self.cut_loops and bb in trail and not (bb in stop):
                    d = dict(st); d['@stop'] = 'loop:' + bb
                    results.append((pc, d))
                    self.path_states.append((pc, d))
                    return
                if self.cut_loops:
                    if self.observer is not None and hasattr(self.observer, 'on_block'):
                        self.observer.on_block(self, f, bb, st, pc)
                    st['@trail'] = trail + (bb,)
                if bb in stop and steps > 0:
                    d = dict(st); d['@stop'] = bb
                    results.append((pc, d))
                    return
                steps += 1
                if bb not in f.blocks:
                    raise Refuse(f'{fname}: unknown block {bb}')
                nxt = None
                for line in f.blocks[bb]:
                    self._ctx = (pc, obligations)
                    if line.startswith(('StorageLive', 'StorageDead', 'nop', 'FakeRead', 'PlaceMention', 'Retag', 'AscribeUserType', 'Coverage', 'ConstEvalCounter', 'BackwardIncompatibleDropHint')):
                        continue
                    if line == 'return':
                        results.append((pc, st.get('_0')))
                        self.path_states.append((pc, st))
                        return
                    if line == 'unreachable':
                        return
                    if line.startswith('resume') or line.startswith('terminate') or line.startswith('abort'):
                        return
                    m = re.match(r'^goto -> (bb\d+)$', line)
                    if m:
                        nxt = m.group(1)
                        break
                    m = re.match(r'^drop\(.*\) -> \[return: (bb\d+), unwind.*\]$', line)
                    if m:
                        nxt = m.group(1)
                        break
                    m = re.match(r'^switchInt\((.*)\) -> \[(.*)\]$', line)
                    if m:
                        self.hint = None
                        v = self.operand(st, m.group(1))
                        self.branch_log.append((f.name, bb, v))
                        if self.observer is not None:
                            self.observer.on_branch(self, f.name, bb, v, pc, st, m.group(2))
                        taken = []
                        for arm in split_top(m.group(2)):
                            k, tgt = [x.strip() for x in arm.split(':')]
                            if k == 'otherwise':
                                c = z3.And(*[z3.Not(t) for t in taken]) if taken else z3.BoolVal(True)
                            else:
                                if v.ty == 'bool':
                                    c = v.t if k != '0' else z3.Not(v.t)
                                else:
                                    c = (v.t == self.const(int(k), v.ty).t)
                                taken.append(c)
                            c = z3.simplify(c)
                            if z3.is_false(c):
                                continue
                            npc = c if z3.is_true(pc) else z3.And(pc, c)
                            self.npaths += 1
                            if self.npaths > self.max_paths:
                                raise Refuse(f'{fname}: more than {self.max_paths} paths')
                            go(tgt, dict(st), npc, steps)
                        return
                    m = re.match(r'^assert\((!?)(.*?), "(.*?)"(?:, .*)?\) -> \[success: (bb\d+), unwind[^\]]*\]$', line, re.S)
                    if m:
                        self.hint = None
                        c = self.operand(st, m.group(2)).t
                        if m.group(1):
                            c = z3.Not(c)
                        c = z3.simplify(c)
                        if not z3.is_true(c):
                            obligations.append({'fn': f.name, 'bb': bb, 'kind': 'assert', 'msg': m.group(3)[:60], 'cond': z3.And(pc, z3.Not(c))})
                            pc = c if z3.is_true(pc) else z3.And(pc, c)
                        nxt = m.group(4)
                        break
                    # call with return
                    m = self._split_call(line, r' -> \[return: (bb\d+), unwind[^\]]*\]$')
                    if m and not re.match(r'^(copy|move|const|\w+\()', m[1].strip()) and self._is_call(m[1]):
                        dst, callee, argtxt, ret = m
                        self.hint = None
                        argv = []
                        for a in split_top(argtxt):
                            try:
                                argv.append(self.operand(st, a))
                            except Refuse:
                                argv.append(Opaque('arg:' + a.strip(), '?'))
                        dty = self._place_type(dst)
                        res = self.call(callee.strip(), argv, pc, obligations, depth, dty, st)
                        self.curf = f; self.alias, self.scope = self._cur_alias_scope
                        self.curbb = bb
                        if res is not None:
                            self.write(st, dst, res)
                        nxt = ret
                        break
                    # diverging call
                    m = self._split_call(line, r' -> (unwind.*|bb\d+)$')
                    if m and self._is_call(m[1]):
                        callee = m[1].strip()
                        msg = callee
                        # message of the panic = last string constant passed to Arguments::from_str on this path
                        if '@lastmsg' in st:
                            msg = st['@lastmsg']
                        obligations.append({'fn': f.name, 'bb': bb, 'kind': 'panic', 'msg': msg[:80], 'cond': pc})
                        return
                    m = re.match(r'^(.+?) = (.*)$', line, re.S)
                    if m:
                        dst = m.group(1).strip()
                        v = self.rvalue(st, m.group(2), self._place_type(dst))
                        self.write(st, dst, v)
                        continue
                    raise Refuse(f'{fname}:{bb}: unsupported statement: {line[:120]}')
                if nxt is None:
                    raise Refuse(f'{fname}:{bb}: fell off block')
                bb = nxt

        self._cur_alias_scope = (self.alias, self.scope)
        go(start, st0, pc0, 0)
        self.curf, self.alias, self.scope, self.curbb = saved
        self._cur_alias_scope = (self.alias, self.scope)
        return results, obligations

    @staticmethod
    def _split_call(line, tail_rx):
        """`dst = callee(args) -> tail`  ->  (dst, callee, args, tail-group) ; the argument list is the last balanced (...) group"""
        mt = re.search(tail_rx, line, re.S)
        if not mt or ' = ' not in line[:mt.start()]:
            return None
        head = line[:mt.start()]
        if not head.endswith(')'):
            return None
        d = 0
        j = len(head) - 1
        instr = False
        while j >= 0:
            ch = head[j]
            if ch == '"':
                instr = not instr
            elif not instr:
                if ch == ')':
                    d += 1
                elif ch == '(':
                    d -= 1
                    if d == 0:
                        break
            j -= 1
        if j <= 0:
            return None
        eq = head.index(' = ')
        if eq > j:
            return None
        return head[:eq].strip(), head[eq + 3:j], head[j + 1:-1], mt.group(1)

    def _place_type(self, dst):
        dst = dst.strip()
        if re.match(r'^_\d+$', dst):
            return self.curf.locals.get(dst)
        m = re.search(r': ([^()]+)\)$', dst)
        return m.group(1).strip() if m else None

    @staticmethod
    def _is_call(txt):
        t = txt.strip()
        return bool(re.match(r'^[<\w]', t)) and not re.match(r'^(Add|Sub|Mul|Div|Rem|BitAnd|BitOr|BitXor|Shl|Shr|Lt|Le|Gt|Ge|Eq|Ne|Neg|Not|discriminant|Len|PtrMetadata|UnaryOp|'
                                                             r'AddWithOverflow|SubWithOverflow|MulWithOverflow|AddUnchecked|SubUnchecked|MulUnchecked|ShlUnchecked|ShrUnchecked|Cmp|Offset)$', t) \
            and not re.match(r'^(Option|Result)::<.*>::(Some|Ok|Err)$', t)

    def call(self, callee, argv, pc, obligations, depth, dty, st):
        self._cur_alias_scope = (self.alias, self.scope)
        if callee in self.summaries:
            return self.summaries[callee](self, argv, pc, obligations)
        base = re.sub(r'::<.*>$', '', callee)
        if any(base == p or base.endswith('::' + p) or (p.endswith('::') and p in base) for p in PANIC_FNS):
            obligations.append({'fn': self.curf.name, 'bb': self.curbb, 'kind': 'panic', 'msg': st.get('@lastmsg', callee)[:80], 'cond': pc})
            return None
        if base == "Arguments::<'_>::from_str" or base.endswith('Arguments::from_str') or 'Arguments' in base:
            if argv and isinstance(argv[0], Opaque) and str(argv[0].t).startswith('str:'):
                st['@lastmsg'] = argv[0].t[4:]
            return Opaque('fmt-arguments', 'Arguments')
        # integer intrinsics of core
        m = re.match(r'^core::num::<impl (\w+)>::(\w+)$', base)
        if m:
            return self.intrinsic(m.group(1), m.group(2), argv, pc, obligations)
        m = re.match(r'^<(\w+) as Ord>::(min|max)$', base)
        if m and m.group(1) in INT:
            return self.intrinsic(m.group(1), m.group(2), argv, pc, obligations)
        m = re.match(r'^<(\w+) as From<(\w+)>>::from$', base)
        if m and m.group(1) in INT:
            return self.cast(argv[0], m.group(1))
        m = re.match(r'^<(\w+) as (?:TryFrom|TryInto)<(\w+)>>::(try_from|try_into)$', base)
        if m and m.group(1) in INT and m.group(2) in INT and argv[0].ty in INT:
            src, dstt = (argv[0].ty, m.group(1)) if m.group(3) == 'try_from' else (m.group(1), m.group(2))
            v = argv[0]
            ok = self.fits(v, dstt)
            return Enum(z3.If(ok, self.const(0, 'isize').t, self.const(1, 'isize').t), {0: [self.cast(v, dstt)], 1: [Opaque('TryFromIntError', 'err')]})
        m = re.match(r'^(?:Result|Option)::<.*?>::(expect|unwrap)$', callee)
        if m and isinstance(argv[0], Enum):
            e = argv[0]
            good = 0 if 0 in e.meta and 'Result' in callee else 1
            if 'Result' in callee:
                good = 0
            bad = z3.simplify(e.t != self.const(good, 'isize').t)
            if not z3.is_false(bad):
                obligations.append({'fn': self.curf.name, 'bb': self.curbb, 'kind': 'panic', 'msg': 'expect/unwrap on failure value', 'cond': z3.And(pc, bad)})
            return e.meta[good][0]
        if base in self.funcs and (self.inline is None or base in self.inline) and depth < 12:
            fn = self.funcs[base]
            if self._scalar_sig(fn):
                res, obl = self.run(base, argv, depth=depth + 1, scope='', pc0=None)
                for o in obl:
                    o2 = dict(o); o2['cond'] = z3.And(pc, o['cond']); obligations.append(o2)
                out = None
                for c, v in reversed(res):
                    out = v if out is None else self.ite(c, v, out)
                return out
        # opaque call: fresh result
        self.fresh += 1
        ms = re.match(r'^<.* as ([\w:]+)>::(\w+)$', base)
        short = f'{ms.group(1).split("::")[-1]}::{ms.group(2)}' if ms else base
        name = f'call:{short}#{self.fresh}'
        if dty and (dty in INT or dty == 'bool'):
            r = self.sym(name, dty)
        else:
            r = Opaque(name, dty or '?')
        self.calls.append((base, argv, r, self.curf.name, self.curbb))
        rec = {'id': self.fresh, 'callee': base, 'generics': callee[len(base):], 'args': [self.show(a, st) for a in argv], 'argtys': [a.ty if isinstance(a, Ref) else '' for a in argv], 'argv': argv, 'result': name, 'pc': pc, 'fn': self.curf.name, 'bb': self.curbb}
        self.call_records[self.fresh] = rec
        if self.observer is not None:
            self.observer.on_call(self, rec, st)
        st['@calls'] = st.get('@calls', ()) + (self.fresh,)
        # a callee may write through the &mut references it receives: give their targets a fresh value named after this call
        for i, a in enumerate(argv):
            if isinstance(a, Ref) and a.ty.startswith('&mut') and isinstance(a.t, str):
                tgt_ty = a.ty[4:].strip()
                st[a.t] = Opaque(f'out{i}:{short}#{self.fresh}', tgt_ty)
        return r

    def _scalar_sig(self, fn):
        def ok(t):
            t = t.strip()
            return is_scalar_ty(t) or re.match(r'^\((\w+, )*\w+\)$', t) or re.match(r'^Result<\w+, &.*str>$', t) or re.match(r'^\[u8; \d+\]$', t)
        return all(ok(t) for _, t in fn.params) and ok(fn.ret)

    def fits(self, v, ty):
        w, sg = INT[ty]
        w1, sg1 = INT[v.ty]
        lo, hi = (-(1 << (w - 1)), (1 << (w - 1)) - 1) if sg else (0, (1 << w) - 1)
        if self.mode == 'int':
            return z3.And(v.t >= lo, v.t <= hi)
        conds = []
        slo, shi = (-(1 << (w1 - 1)), (1 << (w1 - 1)) - 1) if sg1 else (0, (1 << w1) - 1)
        if lo > slo:
            conds.append(v.t >= z3.BitVecVal(lo, w1) if sg1 else z3.BoolVal(True))
        if hi < shi:
            conds.append((v.t <= z3.BitVecVal(hi, w1)) if sg1 else z3.ULE(v.t, z3.BitVecVal(hi, w1)))
        return z3.And(*conds) if conds else z3.BoolVal(True)

    def intrinsic(self, ty, fn, argv, pc, obligations):
        w, sg = INT[ty]
        a = argv[0].t
        bvm = self.mode == 'bv'
        if fn in ('wrapping_mul', 'wrapping_add', 'wrapping_sub'):
            b = argv[1].t
            r = {'wrapping_mul': a * b, 'wrapping_add': a + b, 'wrapping_sub': a - b}[fn]
            return Val(r if bvm else self.wrap(r, ty), ty)
        if fn == 'abs':
            mn = self.const(-(1 << (w - 1)), ty).t
            if self.checked:
                obligations.append({'fn': self.curf.name, 'bb': self.curbb, 'kind': 'assert', 'msg': 'abs: attempt to negate with overflow', 'cond': z3.And(pc, a == mn)})
            return Val(z3.If(a < 0, -a, a), ty)
        if fn == 'unsigned_abs':
            uty = 'u' + ty[1:]
            if bvm:
                return Val(z3.If(a < 0, -a, a), uty)
            return Val(z3.If(a < 0, -a, a), uty)
        if fn == 'abs_diff':
            b = argv[1].t
            uty = ('u' + ty[1:]) if sg else ty
            if bvm:
                lt = (a < b) if sg else z3.ULT(a, b)
                return Val(z3.If(lt, b - a, a - b), uty)
            return Val(z3.If(a < b, b - a, a - b), uty)
        if fn == 'rem_euclid':
            b = argv[1].t
            if bvm:
                r = z3.SRem(a, b) if sg else z3.URem(a, b)
                return Val(z3.If(r < 0, z3.If(b < 0, r - b, r + b), r) if sg else r, ty)
            return Val(a % b, ty)
        if fn == 'to_le_bytes':
            if bvm:
                return Val(tuple(Val(z3.Extract(8 * i + 7, 8 * i, a), 'u8') for i in range(w // 8)), 'array')
            u = self.wrap(a, 'u' + ty[1:]) if sg else a
            return Val(tuple(Val((u / (1 << (8 * i))) % 256, 'u8') for i in range(w // 8)), 'array')
        if fn == 'ilog2':
            c = self.concrete(argv[0])
            if c is not None and c > 0:
                return self.const(c.bit_length() - 1, 'u32')
            if c is None and bvm:
                # position of the highest set bit (the argument is non-zero on non-panicking executions)
                r = z3.BitVecVal(0, 32)
                for i in range(1, w):
                    r = z3.If(z3.Extract(i, i, a) == 1, z3.BitVecVal(i, 32), r)
                return Val(r, 'u32')
            raise Refuse('ilog2 of a non-constant')
        if fn == 'signum' and sg:
            return Val(z3.If(a > 0, self.const(1, ty).t, z3.If(a < 0, self.const(-1, ty).t, self.const(0, ty).t)), ty)
        if fn in ('is_negative', 'is_positive') and sg:
            return Val(a < 0 if fn == 'is_negative' else a > 0, 'bool')
        if fn == 'wrapping_neg':
            return Val(-a if bvm else self.wrap(-a, ty), ty)
        if fn in ('min', 'max'):
            b = argv[1].t
            le = (a <= b) if (sg or not bvm) else z3.ULE(a, b)
            return Val(z3.If(le, a, b) if fn == 'min' else z3.If(le, b, a), ty)
        if fn in ('checked_add', 'checked_sub', 'checked_mul'):
            b = argv[1].t
            op = {'checked_add': 'Add', 'checked_sub': 'Sub', 'checked_mul': 'Mul'}[fn]
            lo, hi = (-(1 << (w - 1)), (1 << (w - 1)) - 1) if sg else (0, (1 << w) - 1)
            if bvm:
                x = z3.SignExt(w, a) if sg else z3.ZeroExt(w, a); y = z3.SignExt(w, b) if sg else z3.ZeroExt(w, b)
                wide = {'Add': x + y, 'Sub': x - y, 'Mul': x * y}[op]
                ok = z3.And(wide >= z3.BitVecVal(lo, 2 * w), wide <= z3.BitVecVal(hi, 2 * w)) if sg else z3.ULE(wide, z3.BitVecVal(hi, 2 * w)) if op != 'Sub' else z3.UGE(a, b)
                r = z3.Extract(w - 1, 0, wide)
            else:
                wide = {'Add': a + b, 'Sub': a - b, 'Mul': a * b}[op]
                ok = z3.And(wide >= lo, wide <= hi); r = wide
            return Enum(z3.If(ok, self.const(1, 'isize').t, self.const(0, 'isize').t), {1: [Val(r, ty)], 0: []})
        if fn == 'reverse_bits' and bvm:
            return Val(z3.Concat(*[z3.Extract(i, i, a) for i in range(w)]), ty)
        raise Refuse(f'intrinsic {ty}::{fn}')

    checked = True
    observer = None            # optional object with on_branch / on_index / on_call (lib/ctflow.py)
    cut_loops = False
    lazy_arrays = False


# --------------------------------------------------------------------------- solving

class Query:
    def __init__(self, name, formula, note=''):
        self.name = name; self.formula = formula; self.note = note
        self.verdict = None; self.time = 0.0; self.model = None; self.cross = None


def solve(q, timeout_s=60, assumptions=()):
    s = z3.Solver()
    s.set('timeout', int(timeout_s * 1000))
    for a in assumptions:
        s.add(a)
    s.add(q.formula)
    t = time.time()
    r = s.check()
    q.time = time.time() - t
    if r == z3.unsat:
        q.verdict = 'unsat'
    elif r == z3.sat:
        q.verdict = 'sat'
        q.model = s.model()
    else:
        q.verdict = 'unknown'
    q.smt2 = None
    return q


def smt2_text(formula, assumptions=()):
    s = z3.Solver()
    for a in assumptions:
        s.add(a)
    s.add(formula)
    return '(set-logic ALL)\n' + s.to_smt2()


def cross_check(formula, assumptions=(), timeout_s=30, solver='/usr/bin/z3'):
    """solve the SMT-LIB text of the query with an independent solver binary; returns 'unsat'|'sat'|'unknown'|'error'"""
    import subprocess, tempfile, os
    txt = smt2_text(formula, assumptions)
    fd, path = tempfile.mkstemp(suffix='.smt2', dir=os.environ.get('VERIF_SCRATCH', '/var/tmp'))
    os.write(fd, txt.encode()); os.close(fd)
    try:
        if 'cvc5' in solver:
            cmd = [solver, '--lang', 'smt2', f'--tlimit={int(timeout_s * 1000)}', path]
        else:
            cmd = [solver, f'-T:{int(timeout_s)}', path]
        p = subprocess.run(cmd, stdout=subprocess.PIPE, stderr=subprocess.STDOUT, text=True, timeout=timeout_s + 10)
        out = p.stdout
        if '(error' in out:
            return 'error'
        first = out.strip().splitlines()[0] if out.strip() else ''
        return first if first in ('unsat', 'sat', 'unknown') else ('unknown' if 'timeout' in out else 'error')
    except subprocess.TimeoutExpired:
        return 'unknown'
    finally:
        os.unlink(path)


def model_values(model, exec_):
    out = {}
    if model is None:
        return out
    for d in model.decls():
        v = model[d]
        try:
            if z3.is_bv_value(v):
                n = v.as_long(); w = v.size()
                out[d.name()] = n - (1 << w) if n >= (1 << (w - 1)) else n
            elif z3.is_int_value(v):
                out[d.name()] = v.as_long()
            else:
                out[d.name()] = str(v)
        except Exception:
            out[d.name()] = str(v)
    return out
