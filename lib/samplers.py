"""Skeleton / loop-step obligations for the sampling functions of hashing.rs (FIPS 204 Algorithms 30-34):
seed construction and index bytes of ExpandA / ExpandS / ExpandMask, and one loop iteration of RejNTTPoly /
RejBoundedPoly from an arbitrary state (j symbolic): bytes consumed, coefficient routine applied, store position,
counter update, exit condition."""
import re
import z3
import e2
import skel


def ob(results, name, tags, ok, detail=''):
    results.append({'name': name, 'tags': tags, 'verdict': 'holds' if ok else 'mismatch', 'detail': detail})


def prove(*f):
    import zutil
    return zutil.check(*f) == z3.unsat


def seeds(funcs, results):
    # ExpandA: A[r][s] = RejNTTPoly(rho || s || r)
    n = 'expand_a::{closure#0}::{closure#0}'
    E, paths = skel.extract(funcs, n, params={'CTEST': False})
    rel = [c for c in paths[0].calls if skel.short_callee(c['callee']) == 'rej_ntt_poly'] if len(paths) == 1 else []
    okA = False; det = ''
    if len(rel) == 1:
        a = skel.norm(rel[0]['args'][0]); det = a
        m = re.match(r'^&\[(call:[^,]*index#\d+), &\[\(\(_ extract 7 0\) \|arg:s\|\)\], &\[\(\(_ extract 7 0\) \|in:r\|\)\]\]$', a)
        if m:
            idx = [c for c in paths[0].calls if c['result'] == m.group(1)]
            okA = bool(idx) and skel.norm(idx[0]['args'][0]) == '&rho' and 'RangeFull' in idx[0]['args'][1] and paths[0].ret_s == rel[0]['result']
    ob(results, 'expand_a: A[r][s] = RejNTTPoly(rho || IntegerToBytes(s,1) || IntegerToBytes(r,1)) with s the inner (column) and r the outer (row) index', ['C04', 'C03', 'C02'], okA, det)
    # the nesting: outer closure index = row r, inner = column s, result[r][s]
    outer = funcs.get('expand_a::{closure#0}')
    okN = outer is not None and outer.debug.get('_2') == 'r' and funcs[n].debug.get('_2') == 's'
    ob(results, 'expand_a: outer from_fn index is the row r, inner the column s', ['C04'], okN, '')
    # ExpandS
    for cn, want, what in (('expand_s::{closure#0}', '&[&rho, &[((_ extract 7 0) |arg:r|)], &[0]]', 's1[r] = RejBoundedPoly(rho || IntegerToBytes(r, 2))'),
                           ('expand_s::{closure#1}', '&[&rho, &[(bvadd ((_ extract 7 0) |arg:r|) ((_ extract 7 0) |param:L|))], &[0]]', 's2[r] = RejBoundedPoly(rho || IntegerToBytes(r + l, 2))')):
        E, paths = skel.extract(funcs, cn, params={'CTEST': False})
        rel = [c for c in paths[0].calls if skel.short_callee(c['callee']) == 'rej_bounded_poly'] if len(paths) == 1 else []
        ok = len(rel) == 1 and skel.norm(rel[0]['args'][1]) == want and rel[0]['args'][0] == '|in:eta|' and paths[0].ret_s == rel[0]['result']
        ob(results, f'expand_s: {what} (r + l < 256 so the high byte is 0)', ['C04'], ok, skel.norm(rel[0]['args'][1]) if rel else 'no call')


def expand_mask(funcs, results):
    tags = ['C03', 'C01']
    E, paths = skel.extract(funcs, 'expand_mask')
    it = [p for p in paths if p.stop.startswith('loop:')]
    if not it:
        ob(results, 'expand_mask: loop iteration found', tags, False, ''); return
    p = it[0]
    calls = {skel.short_callee(c['callee']): c for c in p.calls}
    h = calls.get('h256_xof'); rd = calls.get('XofReader>::read'); bu = calls.get('bit_unpack')
    ok = bool(h and rd and bu)
    det = ''
    if ok:
        # H(rho || IntegerToBytes(mu + r, 2)): the two bytes are the little-endian bytes of (mu + r) as u16
        slices = h['argv'][0]
        lst = p.st.get(slices.t) if isinstance(slices, e2.Ref) else None
        mu = z3.BitVec('arg:mu', 16)
        rsym = [k for k in E.inputs if 'Iterator::next' in k and k.endswith('@Some.0')]
        good = False
        if lst is not None and isinstance(lst.t, tuple) and len(lst.t) == 2 and rsym:
            r = E.inputs[rsym[0]].t
            b = lst.t[1]
            arr = p.st.get(b.t) if isinstance(b, e2.Ref) else None
            first = skel.norm(E.show(lst.t[0], p.st))
            if arr is not None and isinstance(arr.t, tuple) and len(arr.t) == 2 and first == '&rho':
                n = mu + r
                good = prove(z3.Or(arr.t[0].t != z3.Extract(7, 0, n), arr.t[1].t != z3.Extract(15, 8, n)))
        det = skel.norm(h['args'][0])[:200]
        ok &= good
        # v <- H(...)[..32*c], c = 1 + bitlen(gamma1 - 1); y[r] = BitUnpack(v, gamma1 - 1, gamma1)
        ok &= rd['args'][0] == '&' + h['result'] and rd['argtys'][1] == '&mut [u8; 640]'
        idx = [c for c in p.calls if c['result'] == bu['args'][0]]
        bl = [c for c in p.calls if skel.short_callee(c['callee']) == 'bit_length']
        if idx and bl:
            rng = idx[0]['argv'][1]
            g1 = z3.BitVec('arg:gamma1', 32)
            blv = z3.BitVec(bl[0]['result'], 64)
            ok &= skel.norm(idx[0]['args'][0]) == '&out1:' + rd['result'][5:]
            ok &= isinstance(rng.meta, dict) and prove(z3.Or(rng.meta['start'].t != 0, rng.meta['end'].t != 32 * (1 + blv)))
            ok &= prove(bl[0]['argv'][0].t != g1 - 1) and prove(z3.Or(bu['argv'][1].t != g1 - 1, bu['argv'][2].t != g1))
        else:
            ok = False
        # stored at y[r]
        ystore = [v for k, v in p.st.items() if isinstance(v, e2.Opaque) and str(v.t).startswith('store(') and 'expect' in str(v.t)]
        ok &= bool(ystore) and rsym[0].replace('|', '') in str(ystore[0].t).replace('|', '')
    ob(results, 'expand_mask: y[r] = BitUnpack(H(rho || IntegerToBytes(mu + r, 2), 32c), gamma1 - 1, gamma1), c = 1 + bitlen(gamma1 - 1), for r in 0..l', tags, ok, det)
    # loop range 0..L
    rng = [c for c in p.calls if 'into_iter' in c['callee']]
    okr = bool(rng) and 'start: 0, end: ((_ extract 15 0) |param:L|)' in rng[0]['args'][0]
    ob(results, 'expand_mask: r ranges over 0..l', tags, okr, rng[0]['args'][0] if rng else '')


def rejection_loops(funcs, results):
    # ---- RejNTTPoly: one iteration from an arbitrary j
    for fn, tags in (('rej_ntt_poly', ['C04', 'C03', 'C02']), ('rej_bounded_poly', ['C04'])):
        f = funcs[fn]
        heads = skel.find_loop_head(funcs, fn, {'CTEST': False})
        if len(heads) != 1:
            ob(results, f'{fn}: loop head', tags, False, str(heads)); continue
        head = list(heads)[0]
        E0, pre = skel.extract(funcs, fn, params={'CTEST': False}, stop=(head,))
        pp = [p for p in pre if p.stop == head]
        if len(pp) != 1:
            ob(results, f'{fn}: prefix', tags, False, f'{len(pp)} prefix paths'); continue
        jl = f.debug_of.get('j')
        if not jl:      # renamed: the accepted-coefficient counter is the only usize user variable initialised with 0
            import lemmas as _LM
            c = _LM.user_vars(f, r'^usize$', r'const 0_usize'); jl = c[0] if len(c) == 1 else None
        if not jl:
            results.append({'name': f'{fn}: counter local', 'tags': tags, 'verdict': 'refused', 'detail': str(list(f.debug_of))[:200]}); continue
        xof = [c for c in pp[0].calls if skel.short_callee(c['callee']) in ('g128_xof', 'h256_xof')]
        want_xof = 'g128_xof' if fn == 'rej_ntt_poly' else 'h256_xof'
        okp = len(xof) == 1 and skel.short_callee(xof[0]['callee']) == want_xof and xof[0]['args'] == ['&rhos'] and E0.concrete(pp[0].st[jl]) == 0
        ob(results, f'{fn}: ctx = {"G" if fn == "rej_ntt_poly" else "H"}.Absorb(seed), j = 0', tags, okp, str([c['args'] for c in xof]))
        # iteration
        Ex = e2.Exec(funcs, mode='bv', inline=set(), params={'CTEST': False}); Ex.cut_loops = True
        st = dict(pp[0].st); st.pop('@stop', None); st.pop('@trail', None); st['@calls'] = ()
        j = z3.BitVec('j', 64)
        st[jl] = e2.Val(j, 'usize')
        res, obl = Ex.run(fn, [], init=st, start=head)
        its = [skel.Path(Ex, pc, s) for pc, s in Ex.path_states]
        good = True; det = []
        exits = [p for p in its if p.stop == 'return']
        loops = [p for p in its if p.stop.startswith('loop:')]
        # exit iff j >= 256, returning the array
        for p in exits:
            good &= prove(p.pc, z3.ULT(j, 256))
        for p in loops:
            good &= prove(p.pc, z3.UGE(j, 256))
            rd = [c for c in p.calls if skel.short_callee(c['callee']) == 'XofReader>::read']
            nbytes = '&mut [u8; 3]' if fn == 'rej_ntt_poly' else '&mut [u8; 1]'
            good &= len(rd) == 1 and rd[0]['argtys'][1] == nbytes
            j1 = p.st[jl].t
            if fn == 'rej_ntt_poly':
                cf = [c for c in p.calls if skel.short_callee(c['callee']) == 'coeff_from_three_bytes']
                good &= len(cf) == 1 and cf[0]['args'] == ['out1:' + rd[0]['result'][5:]]
                if not cf:
                    continue
                d = z3.BitVec(f'disc({cf[0]["result"]})', 64)
                # Ok -> stored at j and j+1 ; Err -> nothing stored, j unchanged
                stores = [v for k, v in p.st.items() if isinstance(v, e2.Opaque) and str(v.t).startswith('store(')]
                if prove(p.pc, d != 0):     # path on which the sample was accepted
                    good &= prove(p.pc, j1 != j + 1) and any(f'{cf[0]["result"]}@Ok.0' in str(s.t) and ', j, ' in str(s.t) for s in stores)
                else:
                    good &= prove(p.pc, j1 != j) and not stores
            else:
                cf = [c for c in p.calls if skel.short_callee(c['callee']) == 'coeff_from_half_byte']
                good &= len(cf) == 2
                if len(cf) != 2:
                    continue
                byte = z3.BitVec(f'out1:{rd[0]["result"][5:]}[0]', 8)
                good &= prove(z3.Or(cf[0]['argv'][1].t != (byte & 0x0F), cf[1]['argv'][1].t != z3.LShR(byte, 4)))
                d0 = z3.BitVec(f'disc({cf[0]["result"]})', 64); d1 = z3.BitVec(f'disc({cf[1]["result"]})', 64)
                # j advances by [z0 accepted] + [z1 accepted and j' < 256]
                a0 = z3.If(d0 == 0, z3.BitVecVal(1, 64), z3.BitVecVal(0, 64))
                j_mid = j + a0
                a1 = z3.If(z3.And(d1 == 0, z3.ULT(j_mid, 256)), z3.BitVecVal(1, 64), z3.BitVecVal(0, 64))
                good &= prove(p.pc, j1 != j_mid + a1)
        good &= len(loops) >= 2 and len(exits) >= 1
        ob(results, f'{fn}: one loop iteration from an arbitrary j follows Algorithm {"30" if fn == "rej_ntt_poly" else "31"} (bytes squeezed, coefficient routine, store position, counter, exit iff j = 256)', tags, good, f'{len(loops)} continue paths, {len(exits)} exit paths')


def run(funcs, results):
    for fn in (seeds, expand_mask, rejection_loops):
        try:
            fn(funcs, results)
        except (e2.Refuse, KeyError, IndexError) as ex:
            results.append({'name': f'samplers.{fn.__name__}', 'tags': ['C03', 'C04'], 'verdict': 'refused', 'detail': repr(ex)})


def sample_in_ball(funcs, results):
    """Algorithm 29: prefix (H(rho), 8 sign bytes, i from 256 - tau to 255) and one outer-loop iteration from an arbitrary state"""
    import lemmas as LM
    tags = ['C03', 'C02', 'C01']
    fn = 'sample_in_ball'
    f = funcs[fn]
    entry, head, opt = LM.loop_anchor(f, 'i')
    E0, pre = skel.extract(funcs, fn, params={'CTEST': False}, stop=(head,))
    pp = [p for p in pre if p.stop == head]
    okp = len(pp) == 1
    det = ''
    if okp:
        calls = pp[0].calls
        hx = [c for c in calls if skel.short_callee(c['callee']) == 'h256_xof']
        rd = [c for c in calls if skel.short_callee(c['callee']) == 'XofReader>::read']
        rg = [c for c in calls if 'RangeInclusive' in c['callee'] and c['callee'].endswith('new')]
        tau = z3.BitVec('arg:tau', 32)
        okp = (len(hx) == 1 and hx[0]['args'] == ['&[&rho]'] and len(rd) == 1 and rd[0]['args'][0] == '&' + hx[0]['result'] and rd[0]['argtys'][1] == '&mut [u8; 8]'
               and len(rg) == 1 and prove(tau >= 0, tau <= 64, z3.Or(rg[0]['argv'][0].t != 256 - z3.ZeroExt(32, tau), rg[0]['argv'][1].t != 255)))
        det = str([c['args'] for c in hx + rd + rg])[:200]
    ob(results, 'sample_in_ball: ctx = H.Absorb(rho); 8 sign bytes squeezed first; i runs from 256 - tau to 255', tags, okp, det)
    if not okp:
        return
    # one iteration of the outer loop
    Ex = e2.Exec(funcs, mode='bv', inline=set(), params={'CTEST': False}); Ex.cut_loops = True
    st = dict(pp[0].st); st.pop('@stop', None); st.pop('@trail', None); st['@calls'] = ()
    i = z3.BitVec('i', 64)
    C = z3.Array('C', z3.BitVecSort(64), z3.BitVecSort(32)); H = z3.Array('Hs', z3.BitVecSort(64), z3.BitVecSort(8))
    cl = f.debug_of.get('c'); hl = f.debug_of.get('h')
    if not cl or not hl:
        import lemmas as _LM
        c1 = _LM.user_vars(f, r'^(types::)?R$'); c2 = _LM.user_vars(f, r'^\[u8; 8\]$')
        cl = cl or (c1[0] if len(c1) == 1 else None); hl = hl or (c2[0] if len(c2) == 1 else None)
    if not cl or not hl:
        results.append({'name': 'sample_in_ball: locals c / h', 'tags': tags, 'verdict': 'refused', 'detail': str(list(f.debug_of))[:200]}); return
    st[opt] = e2.Enum(z3.BitVecVal(1, 64), {1: [e2.Val(i, 'usize')]})
    st['@arrays'] = {cl + '.0': C, hl: H}
    st.pop(hl, None); st.pop(cl, None)
    res, obl = Ex.run(fn, [], init=st, start=entry, stop=(head,))
    done = [(pc, s) for pc, s in res if isinstance(s, dict) and s.get('@stop') == head]
    again = [skel.Path(Ex, pc, s) for pc, s in Ex.path_states if isinstance(s, dict) and str(s.get('@stop', '')).startswith('loop:')]
    tau = z3.ZeroExt(32, z3.BitVec('arg:tau', 32))
    pre_i = z3.And(z3.UGE(i, 256 - tau), z3.ULE(i, 255), z3.ULE(tau, 64), z3.UGE(tau, 1))
    good = len(done) >= 1 and len(again) >= 1
    k = z3.BitVec('k', 64)
    for pc, s in done:
        calls = [Ex.call_records[c] for c in s.get('@calls', ())]
        rds = [c for c in calls if skel.short_callee(c['callee']) == 'XofReader>::read']
        good &= len(rds) >= 1 and all(c['argtys'][1] == '&mut [u8; 1]' for c in rds)
        if not rds:
            continue
        j0 = z3.ZeroExt(56, z3.BitVec(f'out1:{rds[-1]["result"][5:]}[0]', 8))
        C1 = s['@arrays'][cl + '.0']
        idx = i + tau - 256
        bit = z3.LShR(z3.Select(H, z3.LShR(idx, 3)), z3.Extract(7, 0, idx & 7)) & 1
        want = z3.Store(z3.Store(C, i, z3.Select(C, j0)), j0, 1 - 2 * z3.ZeroExt(24, bit))
        good &= prove(pre_i, pc, z3.UGT(j0, i))                       # the accepted j satisfies j <= i
        good &= prove(pre_i, pc, z3.Select(C1, k) != z3.Select(want, k))
    for p in again:
        rds = [c for c in p.calls if skel.short_callee(c['callee']) == 'XofReader>::read']
        if rds:
            jb = z3.ZeroExt(56, z3.BitVec(f'out1:{rds[0]["result"][5:]}[0]', 8))
            good &= prove(pre_i, p.pc, z3.ULE(jb, i))                 # another byte is squeezed only while j > i
    ob(results, 'sample_in_ball: one iteration from an arbitrary state: squeeze j until j <= i; c[i] = c[j]; c[j] = (-1)^h[i + tau - 256]', tags, good, f'{len(done)} completing paths, {len(again)} re-squeeze paths')


_run0 = run


def run(funcs, results):
    _run0(funcs, results)
    try:
        sample_in_ball(funcs, results)
    except (e2.Refuse, KeyError, IndexError) as ex:
        results.append({'name': 'samplers.sample_in_ball', 'tags': ['C03', 'C02'], 'verdict': 'refused', 'detail': repr(ex)})
