"""Reusable E2 lemmas: the Montgomery-reduction contract and its use as a call summary, loop anchors,
def-chain tracing of call arguments inside one MIR body."""
import re
import z3
import e2
from e2run import merged

Q = 8380417
MONT_LO = -17996808479301632
MONT_HI = 17996808470921215


def mont_reduce_contract(sess, funcs, run=None):
    """proves on the real MIR (bit-vector encoding): for every a in the documented range,
       result * 2^32 == a - t*q  with t = sext(low32(a) * QINV)  (so t in [-2^31, 2^31)), no overflow, -q < result < q.
    This is what `mont_summary` assumes at call sites."""
    E = e2.Exec(funcs, mode='bv')
    a = e2.Val(z3.BitVec('a', 64), 'i64')
    pre = z3.And(a.t >= MONT_LO, a.t <= MONT_HI)
    res, obl = E.run('mont_reduce', [a])
    out = merged(E, res)
    ok = sess.discharge_obligations('mont_reduce', obl, pre)
    r = out.t
    t = z3.SignExt(32, z3.Extract(31, 0, a.t) * z3.BitVecVal(58728449, 32))
    d = a.t - t * Q
    qs = [('mont_reduce contract: (a - t*q) has its low 32 bits zero', z3.Extract(31, 0, d) != 0),
          ('mont_reduce contract: result == (a - t*q) >> 32 exactly', z3.SignExt(32, r) != (d >> 32)),
          ('mont_reduce contract: a - t*q does not wrap in i64', z3.Not(z3.And(z3.BVMulNoOverflow(t, z3.BitVecVal(Q, 64), True), z3.BVMulNoUnderflow(t, z3.BitVecVal(Q, 64)),
                                                                      z3.BVSubNoOverflow(a.t, t * Q), z3.BVSubNoUnderflow(a.t, t * Q, True)))),
          ('mont_reduce contract: -q < result < q', z3.Not(z3.And(r < Q, r > -Q)))]
    for n, f in qs:
        ok &= sess.discharge(n, f, pre=pre, fn='mont_reduce') == 'unsat'
    return ok


def mont_summary(E, argv, pc, obligations):
    """call summary for mont_reduce in the mathematical-integer encoding (justified by mont_reduce_contract)"""
    a = argv[0].t
    obligations.append({'fn': 'mont_reduce(call site)', 'bb': E.curbb, 'kind': 'assert', 'msg': 'mont_reduce documented input range',
                        'cond': z3.And(pc, z3.Not(z3.And(a >= MONT_LO, a <= MONT_HI)))})
    E.fresh += 1
    r = z3.Int(f'mr!{E.fresh}'); k = z3.Int(f'mk!{E.fresh}')
    E.summary_facts += [r * (1 << 32) == a - k * Q, k >= -(1 << 31), k < (1 << 31)]
    if not hasattr(E, 'mont_calls'):
        E.mont_calls = []
    E.mont_calls.append((a, r))
    return e2.Val(r, 'i32')


def mr_bound(P):
    """|mont_reduce(a)| <= this for |a| <= P (from result*2^32 = a - k*q, |k| <= 2^31)"""
    return (P + (1 << 31) * Q) // (1 << 32)


def ntt_out_bound(B0):
    """bound on |ntt output| after the 8 layers, from the forward butterfly lemma (tight form)"""
    B = B0
    for _ in range(8):
        B = B + mr_bound((Q - 1) * B)
    return B


def loop_anchor(f, var, elem_ty='usize', iter_kind='core::ops::Range<usize>'):
    """body entry / loop head blocks of `for <var> in ...` identified by the debug name of the loop variable"""
    jl = f.debug_of.get(var) or (var if re.match(r'^_\d+$', var) else None)
    if not jl:
        raise e2.Refuse(f'{f.name}: no local with debug name {var}')
    rx = re.compile(r'^' + re.escape(jl) + r' = copy \(\((_\d+) as Some\)\.0: ' + re.escape(elem_ty) + r'\)$')
    entry = [(bb, rx.match(l).group(1)) for bb, ls in f.blocks.items() for l in ls if rx.match(l)]
    if len(entry) != 1:
        raise e2.Refuse(f'{f.name}: loop body entry for `{var}` not unique ({entry})')
    bb, opt = entry[0]
    head = [b for b, ls in f.blocks.items() if any(l.startswith(opt + ' = <') and 'as Iterator>::next(' in l for l in ls)]
    if len(head) != 1:
        raise e2.Refuse(f'{f.name}: loop head for `{var}` not unique ({head})')
    return bb, head[0], opt


def user_vars(f, ty_rx, init_rx=None):
    """user variables (plain locals with a debug name) of a type, optionally with an initialising statement; ordered by local number"""
    out = []
    for place, name in f.debug.items():
        if not re.match(r'^_\d+$', place) or not re.match(ty_rx, f.locals.get(place, '')):
            continue
        if init_rx and not any(re.match(r'^' + re.escape(place) + r' = ' + init_rx + r'$', l) for ls in f.blocks.values() for l in ls):
            continue
        out.append(place)
    return sorted(out, key=lambda x: int(x[1:]))


def ntt_vars(f):
    """locals of ntt / inv_ntt by role: pinned source names first, structural fall-back (type + initialiser) when they were renamed"""
    fwd = f.name == 'ntt'
    d = {k: f.debug_of.get(k) for k in ('m', 'len', 'start', 'zeta', 'w_poly', 'j')}
    def one(c):
        return c[0] if len(c) == 1 else None
    if not d['len']:
        d['len'] = one(user_vars(f, r'^usize$', r'const 128_usize' if fwd else r'const 1_usize'))
    if not d['m']:
        c = user_vars(f, r'^usize$', r'const 0_usize' if fwd else r'const 256_usize')
        d['m'] = c[0] if c else None                      # declared before `start` (which is also initialised with 0 in the forward transform)
    if not d['start']:
        c = [x for x in user_vars(f, r'^usize$', r'const 0_usize') if x != d['m']]
        d['start'] = one(c)
    if not d['zeta']:
        d['zeta'] = one(user_vars(f, r'^i64$' if fwd else r'^i32$', None)) if fwd else one([x for x in user_vars(f, r'^i32$') if any(re.match(r'^' + re.escape(x) + r' = Neg\(', l) for ls in f.blocks.values() for l in ls)])
    if not d['w_poly']:
        d['w_poly'] = one(user_vars(f, r'^&mut (types::)?[RT]$'))
    if not d['j']:
        rx = re.compile(r'^(_\d+) = copy \(\((_\d+) as Some\)\.0: usize\)$')
        c = sorted({m.group(1) for ls in f.blocks.values() for l in ls for m in [rx.match(l)] if m and m.group(1) in f.debug}, key=lambda x: int(x[1:]))
        d['j'] = one(c)
    return d


def defs_of(f, local):
    """statements assigning `local` in function f: [(bb, rhs)]"""
    out = []
    rx = re.compile(r'^' + re.escape(local) + r' = (.*)$', re.S)
    for bb, ls in f.blocks.items():
        if bb in f.cleanup:
            continue
        for l in ls:
            m = rx.match(l)
            if m:
                out.append((bb, m.group(1)))
    return out


def trace_producer(funcs, f, local, depth=0):
    """follow `local` back through moves / borrows to the call or aggregate that produced it.
    -> ('call', callee, [arg locals]) | ('from_fn', closure_fn_name) | ('unknown', text)"""
    if depth > 12:
        return ('unknown', 'depth')
    ds = defs_of(f, local)
    if not ds and any(local == p for p, _ in f.params):
        return ('param', local)
    if len(ds) != 1:
        return ('unknown', f'{local} has {len(ds)} definitions')
    rhs = ds[0][1]
    m = re.match(r'^(?:&|&mut |move |copy |no_retag copy )\(?(_\d+)\)?$', rhs.strip())
    if m:
        return trace_producer(funcs, f, m.group(1), depth + 1)
    m = re.match(r'^(?:copy |move )?(_\d+) as .* \(PointerCoercion.*\)$', rhs.strip())
    if m:
        return trace_producer(funcs, f, m.group(1), depth + 1)
    m = re.match(r'^core::array::from_fn::<.*?\{closure@([^}]*)\}>\((?:move|copy) (_\d+)\) -> ', rhs)
    if m:
        span = m.group(1)
        cands = [n for n, g in funcs.items() if g.params and f'{{closure@{span}}}' in g.params[0][1]]
        if len(cands) > 1:      # the same macro body instantiated in several modules: keep the caller's own closure
            own = [n for n in cands if n.startswith(f.name + '::{closure')]
            cands = own or cands
        if len(cands) == 1:
            return ('from_fn', cands[0])
        return ('unknown', f'closure {span}: {cands}')
    m = re.match(r'^([\w:]+?)(?:::<.*?>)?\((.*)\) -> \[return', rhs, re.S)
    if m:
        args = re.findall(r'(?:move|copy) (_\d+)', m.group(2))
        return ('call', m.group(1), args)
    return ('unknown', rhs[:80])


def call_sites(f, callee):
    """[(bb, dst, [arg locals])] of calls to `callee` (generic arguments ignored) in the non-cleanup blocks of f"""
    out = []
    rx = re.compile(r'^(_\d+) = ' + re.escape(callee) + r'(?:::<.*?>)?\((.*)\) -> \[return', re.S)
    for bb, ls in f.blocks.items():
        if bb in f.cleanup:
            continue
        for l in ls:
            m = rx.match(l)
            if m:
                out.append((bb, m.group(1), re.findall(r'(?:move|copy) (_\d+)', m.group(2))))
    return out


def parse_alloc_i32(text, name):
    """contents of `allocN (static: <name>, ...)` as a list of little-endian i32"""
    m = re.search(r'(?m)^alloc\d+ \(static: ' + re.escape(name) + r', size: (\d+), align: \d+\) \{\n(.*?)^\}', text, re.S)
    if not m:
        return None
    bs = []
    for line in m.group(2).splitlines():
        mm = re.match(r'^\s*0x[0-9a-f]+ │ ((?:[0-9a-f]{2} ?)+)│', line)
        if mm:
            bs += [int(x, 16) for x in mm.group(1).split()]
    vals = []
    for i in range(0, len(bs), 4):
        v = bs[i] | (bs[i + 1] << 8) | (bs[i + 2] << 16) | (bs[i + 3] << 24)
        vals.append(v - (1 << 32) if v >= (1 << 31) else v)
    return vals


def consts_of(term):
    """names of the uninterpreted constants occurring in a z3 term"""
    seen = set(); out = set()
    stack = [term]
    while stack:
        t = stack.pop()
        if t.get_id() in seen:
            continue
        seen.add(t.get_id())
        if z3.is_const(t) and t.decl().kind() == z3.Z3_OP_UNINTERPRETED:
            out.add(t.decl().name())
        stack.extend(t.children())
    return out
