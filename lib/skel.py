"""Dataflow skeletons of whole MIR bodies (calls uninterpreted) and a small unifier to compare them with the
call sequence prescribed by a FIPS 204 algorithm."""
import re
import z3
import e2

RELEVANT = ('h256_xof', 'g128_xof', 'XofReader>::read', 'expand_a', 'expand_s', 'expand_mask', 'sample_in_ball', 'ntt', 'inv_ntt', 'mat_vec_mul',
            'add_vector_ntt', 'to_mont', 'power2round', 'pk_encode', 'pk_decode', 'sk_encode', 'sk_decode', 'sig_encode', 'sig_decode', 'w1_encode',
            'infinity_norm', 'core::array::from_fn', 'PartialEq>::eq', 'bit_unpack', 'bit_pack', 'simple_bit_pack', 'simple_bit_unpack',
            'hint_bit_pack', 'hint_bit_unpack', 'Iterator>::sum', 'key_gen_internal', 'sign_internal', 'verify_internal', 'hash_message',
            'expand_private', 'expand_public', 'private_to_public_key', 'try_fill_bytes', 'fill_bytes', 'next_u32', 'next_u64', 'is_in_range')


def short_callee(c):
    c = re.sub(r'::<.*>$', '', c)
    m = re.match(r'^<.* as ([\w:]+)>::(\w+)$', c)
    if m:
        return f'{m.group(1).split("::")[-1]}>::{m.group(2)}'
    return c


def is_relevant(rec):
    s = short_callee(rec['callee'])
    return any(s == r or s.endswith('::' + r) for r in RELEVANT)


def norm(s):
    """strip source spans of closures (they move when lines are edited)"""
    return re.sub(r'closure@[^{}\]]*?:\d+:\d+: \d+:\d+', 'closure', s)


class Path:
    def __init__(self, E, pc, st):
        self.pc = pc; self.st = st
        self.stop = st.get('@stop', 'return') if isinstance(st, dict) else 'return'
        self.calls = [E.call_records[c] for c in st.get('@calls', ())]
        self.ret = st.get('_0')
        self.ret_s = norm(E.show(self.ret, st)) if self.ret is not None else ''

    def rel(self):
        return [c for c in self.calls if is_relevant(c)]


def extract(funcs, fname, params=None, named=None, start='bb0', stop=(), init=None, checked=True, inline=None):
    """-> (E, [Path]) for a whole-body run with loops cut after one iteration"""
    E = e2.Exec(funcs, mode='bv', inline=set(inline or ()), params=params or {})
    E.cut_loops = True
    f = funcs[fname]
    st = E.init_params(f, named)
    if init:
        st.update(init)
    res, obl = E.run(fname, [], init=st, start=start, stop=stop)
    paths = [Path(E, pc, s) for pc, s in E.path_states]
    # paths ended by a `stop` block are in res only
    for pc, r in res:
        if isinstance(r, dict) and r.get('@stop') in stop:
            paths.append(Path(E, pc, r))
    E.obligations = obl
    return E, paths


def find_loop_head(funcs, fname, params=None):
    E, paths = extract(funcs, fname, params)
    heads = {p.stop[5:] for p in paths if p.stop.startswith('loop:')}
    return heads


class Mismatch(Exception):
    pass


TOKEN = r'[A-Za-z_][\w:#@\.>]*(?:\[\d+\])?'


def _closure_entries(s):
    """`closure{a: X, b: Y}` -> [(a, X), (b, Y)] (top-level split; None if `s` is not a closure provenance)"""
    if not (s.startswith('closure{') and s.endswith('}')):
        return None
    body = s[len('closure{'):-1]
    parts = []; d = 0; cur = ''
    for ch in body:
        if ch in '([{':
            d += 1
        elif ch in ')]}':
            d -= 1
        if ch == ',' and d == 0:
            parts.append(cur); cur = ''
        else:
            cur += ch
    if cur.strip():
        parts.append(cur)
    out = []
    for part in parts:
        if ': ' not in part:
            return None
        k, v = part.strip().split(': ', 1)
        out.append((k.strip(), v.strip()))
    return out


def _unify_closure(pe, ae, env):
    """captured values are matched as a set: the *names* of captured variables are source-level identifiers (a rename must not
    matter); the pattern's names are roles, and env['_caps'] records role -> actual capture name for the closure lemmas"""
    if len(pe) != len(ae):
        return False
    def rec(i, used, e, caps):
        if i == len(pe):
            return e, caps
        role, vp = pe[i]
        order = sorted(range(len(ae)), key=lambda j: (ae[j][0] != role, j))      # same name first, then positional
        for j in order:
            if j in used:
                continue
            e2_ = dict(e)
            if unify(vp, ae[j][1], e2_):
                r = rec(i + 1, used | {j}, e2_, {**caps, role: ae[j][0]})
                if r:
                    return r
        return None
    r = rec(0, frozenset(), dict(env), {})
    if not r:
        return False
    e, caps = r
    env.update(e)
    env['_caps'] = caps
    return True


def unify(pattern, actual, env):
    """pattern with $var placeholders against the provenance string `actual`; env is updated"""
    actual = norm(actual)
    pe = _closure_entries(pattern)
    if pe is not None:
        ae = _closure_entries(actual)
        if ae is not None:
            return _unify_closure(pe, ae, env)
    rx = ''
    i = 0
    groups = []
    for m in re.finditer(r'\$(\w+)', pattern):
        rx += re.escape(pattern[i:m.start()])
        v = m.group(1)
        # longest bound name that prefixes the token (so that `$mu.out1` resolves the binding `mu.out1`)
        rest = pattern[m.end():]
        mdot = re.match(r'^\.out\d', rest)
        if mdot and (v + mdot.group(0)) in env:
            rx += re.escape(env[v + mdot.group(0)])
            i = m.end() + len(mdot.group(0))
            continue
        if v in env:
            rx += re.escape(env[v])
        elif v in groups:
            rx += f'(?P={v})'
        else:
            rx += f'(?P<{v}>{TOKEN})'
            groups.append(v)
        i = m.end()
    rx += re.escape(pattern[i:])
    mm = re.fullmatch(rx, actual)
    if not mm:
        return False
    for g in groups:
        env[g] = mm.group(g)
    return True


def match_sequence(calls, expected, env=None, what=''):
    """calls: relevant call records of one path (in order); expected: [(callee, [arg patterns], bind | None, {opts})]
    raises Mismatch with a readable message; returns env"""
    env = dict(env or {})
    i = 0
    for step in expected:
        callee, args, bind = step[0], step[1], step[2]
        opts = step[3] if len(step) > 3 else {}
        if opts.get('optional') and (i >= len(calls) or short_callee(calls[i]['callee']).split('::')[-1] != callee.split('::')[-1]):
            continue
        if i >= len(calls):
            raise Mismatch(f'{what}: expected a call to {callee}{args} but the path ends after {len(calls)} relevant calls')
        rec = calls[i]
        sc = short_callee(rec['callee'])
        if not (sc == callee or sc.endswith('::' + callee) or sc.endswith(callee)):
            raise Mismatch(f'{what}: step {i + 1}: expected {callee}{args}, found {sc}{[norm(a) for a in rec["args"]]} at {rec["fn"]}:{rec["bb"]}')
        if len(args) != len(rec['args']):
            raise Mismatch(f'{what}: step {i + 1}: {callee} called with {len(rec["args"])} arguments, expected {len(args)}')
        for k, (pat, act) in enumerate(zip(args, rec['args'])):
            if pat is None:
                continue
            if not unify(pat, act, env):
                shown = pat
                for kk, vv in sorted(env.items(), key=lambda kv: -len(kv[0])):
                    if isinstance(vv, str):
                        shown = shown.replace('$' + kk, vv)
                raise Mismatch(f'{what}: step {i + 1}: argument {k} of {callee} is `{norm(act)}`, FIPS 204 prescribes `{shown}`')
        for k, ty in (opts.get('argtys') or {}).items():
            if norm(rec['argtys'][k]) != ty:
                raise Mismatch(f'{what}: step {i + 1}: argument {k} of {callee} has type `{rec["argtys"][k]}`, expected `{ty}`')
        caps = env.pop('_caps', None)
        if caps is not None:
            rec['caps'] = caps
        if bind:
            env[bind] = rec['result']
            env['rec:' + bind] = rec
            for k in range(len(rec['args'])):
                env[f'{bind}.out{k}'] = f'out{k}:{rec["result"][5:]}'
        i += 1
    if i != len(calls):
        extra = calls[i]
        raise Mismatch(f'{what}: unexpected additional call {short_callee(extra["callee"])}{[norm(a) for a in extra["args"]]} at {extra["fn"]}:{extra["bb"]} (not in the FIPS 204 algorithm)')
    return env


def closure_of(funcs, rec):
    """inner per-coefficient closure function of a core::array::from_fn call record"""
    a = rec['argv'][0]
    if not isinstance(a, e2.Opaque) or not str(a.t).startswith('closure@'):
        return None
    span = str(a.t)[len('closure@'):]
    cands = [n for n, g in funcs.items() if g.params and f'{{closure@{span}}}' in g.params[0][1]]
    own = [n for n in cands if n.startswith(rec['fn'].split('::{closure')[0] + '::{closure')] or cands
    if len(own) != 1:
        return None
    inner = own[0] + '::{closure#0}'
    return inner if inner in funcs else own[0]
