"""Layout arithmetic of the FIPS 204 encodings (Algorithms 22-28) on the real MIR: which byte range of the key /
signature is handed to which (un)packing routine with which range parameters.  Decided per parameter set with the
loop index symbolic (one iteration of each loop, loops cut), so every section of every polynomial is covered."""
import re
import z3
import e2
import skel

Q = 8380417
SETS = {'ml_dsa_44': dict(K=4, L=4, eta=2, gamma1=1 << 17, gamma2=(Q - 1) // 88, omega=80, LAMBDA_DIV4=32, PK_LEN=1312, SK_LEN=2560, SIG_LEN=2420),
        'ml_dsa_65': dict(K=6, L=5, eta=4, gamma1=1 << 19, gamma2=(Q - 1) // 32, omega=55, LAMBDA_DIV4=48, PK_LEN=1952, SK_LEN=4032, SIG_LEN=3309),
        'ml_dsa_87': dict(K=8, L=7, eta=2, gamma1=1 << 19, gamma2=(Q - 1) // 32, omega=75, LAMBDA_DIV4=64, PK_LEN=2592, SK_LEN=4896, SIG_LEN=4627)}


def bitlen(x):
    return x.bit_length()


def _all_calls(E, paths):
    seen = {}
    for p in paths:
        for c in p.calls:
            seen[c['id']] = c
    return [seen[k] for k in sorted(seen)]


def _slice(byres, arg):
    """the (buffer, start term, end term|None) behind an Index/IndexMut call result used as an argument"""
    name = arg.lstrip('&')
    r = byres.get(name)
    if r is None or 'Index' not in r['callee']:
        return None
    rng = r['argv'][1]
    if isinstance(rng, e2.Opaque) and isinstance(rng.meta, dict):
        st = rng.meta.get('start'); en = rng.meta.get('end')
        return skel.norm(r['args'][0]), (st.t if st is not None else None), (en.t if en is not None else None)
    m = re.match(r'^const:core::ops::Range::<usize> \{\{? start: (\d+)_usize, end: (\d+)_usize \}?\}$', str(rng.t))
    if m:
        return skel.norm(r['args'][0]), z3.BitVecVal(int(m.group(1)), 64), z3.BitVecVal(int(m.group(2)), 64)
    return None


def _prove(f):
    import zutil
    return zutil.check(f) == z3.unsat


def _loopvars(term):
    import lemmas
    return [c for c in lemmas.consts_of(term) if 'Iterator::next' in c]


def check_sections(funcs, fn, P, routine, expected, buffer_hint, results, tags):
    """every call of `routine` in `fn` gets a byte range [base + i*step, base + (i+1)*step) and parameters as in `expected`
    expected: list of dict(base, step, count, params=[...]) in program order"""
    params = {k: v for k, v in P.items() if k in ('K', 'L', 'LAMBDA_DIV4', 'PK_LEN', 'SK_LEN', 'SIG_LEN')}
    params['CTEST'] = False
    named = {}
    for a in ('eta', 'gamma1', 'gamma2', 'omega'):
        named[a] = e2.Val(z3.BitVecVal(P[a], 32), 'i32')
    E, paths = skel.extract(funcs, fn, params=params, named=named, inline={'bit_length'})
    calls = _all_calls(E, paths)
    byres = {c['result']: c for c in calls}
    recs = [c for c in calls if skel.short_callee(c['callee']).split('::')[-1] == routine]
    # distinct sections = distinct (slice record)
    found = []
    for c in recs:
        sl = None
        for a in c['args']:
            sl = _slice(byres, a) or sl
        if sl is None:
            continue
        scal = [E.concrete(v) for v in c['argv'] if isinstance(v, e2.Val) and not isinstance(v, (e2.Ref, e2.Opaque)) and v.ty == 'i32']
        found.append((c, sl, scal))
    # dedupe identical (start, end) terms
    uniq = []
    for c, sl, scal in found:
        key = (str(sl[1]), str(sl[2]))
        if key not in [u[3] for u in uniq]:
            uniq.append((c, sl, scal, key))
    def at0(t):
        if t is None:
            return -1
        lv = _loopvars(t)
        v = z3.simplify(z3.substitute(t, *[(z3.BitVec(x, 64), z3.BitVecVal(0, 64)) for x in lv])) if lv else z3.simplify(t)
        return v.as_long() if z3.is_bv_value(v) else -1
    uniq.sort(key=lambda u: at0(u[1][1]))
    expected = sorted(expected, key=lambda e: e['base'])
    ok_all = len(uniq) == len(expected)
    detail = f'{len(uniq)} distinct sections found, {len(expected)} expected'
    for (c, sl, scal, _), ex in zip(uniq, expected):
        buf, st, en = sl
        lv = _loopvars(st) if st is not None else []
        i = z3.BitVec(lv[0], 64) if lv else z3.BitVecVal(0, 64)
        want_s = ex['base'] + i * ex['step']
        want_e = ex['base'] + (i + 1) * ex['step']
        good = st is not None and _prove(st != want_s) and (en is None and ex.get('open_end') or (en is not None and _prove(en != want_e)))
        good &= (scal == ex['params']) if ex.get('params') is not None else True
        good &= (buffer_hint in buf) or ('IndexMut' in buf) or ('out0:' in buf)
        if ex.get('count') is not None:
            # the loop runs over 0..count: the iterator feeding the index is Range{0, count}
            good &= bool(lv) or ex['count'] == 1
        if not good:
            ok_all = False
            detail = f'{routine} at {c["fn"]}:{c["bb"]}: bytes [{z3.simplify(st) if st is not None else None}, {z3.simplify(en) if en is not None else None}) of {buf}, parameters {scal}; FIPS 204: [{ex["base"]} + i*{ex["step"]}, ...), parameters {ex["params"]}'
            break
    results.append({'name': f'{fn}: sections handed to {routine} are the FIPS 204 byte ranges and (a, b) parameters', 'tags': tags, 'verdict': 'holds' if ok_all else 'mismatch', 'detail': detail})
    return E, paths, calls


def run(funcs, results):
    for sname, P in SETS.items():
        n0 = len(results)
        K, L, eta, g1, g2, om, LD4 = P['K'], P['L'], P['eta'], P['gamma1'], P['gamma2'], P['omega'], P['LAMBDA_DIV4']
        S = 32 * (1 + bitlen(g1 - 1)); Ee = 32 * bitlen(2 * eta); T0 = 32 * 13; T1 = 32 * 10; W = 32 * bitlen((Q - 1) // (2 * g2) - 1)
        try:
            check_sections(funcs, 'sig_decode', P, 'bit_unpack', [dict(base=LD4, step=S, count=L, params=[g1 - 1, g1])], 'sigma', results, ['C08', 'C02'])
            check_sections(funcs, 'sig_decode', P, 'hint_bit_unpack', [dict(base=LD4 + L * S, step=om + K, count=1, params=[om], open_end=True)], 'sigma', results, ['C08', 'C02', 'C05'])
            check_sections(funcs, 'sig_encode', P, 'bit_pack', [dict(base=LD4, step=S, count=L, params=[g1 - 1, g1])], 'sigma', results, ['C08', 'C03'])
            check_sections(funcs, 'sig_encode', P, 'hint_bit_pack', [dict(base=LD4 + L * S, step=om + K, count=1, params=[om], open_end=True)], 'sigma', results, ['C08', 'C03'])
            check_sections(funcs, 'sk_decode', P, 'bit_unpack', [dict(base=128, step=Ee, count=L, params=[eta, eta]), dict(base=128 + L * Ee, step=Ee, count=K, params=[eta, eta]),
                                                               dict(base=128 + (L + K) * Ee, step=T0, count=K, params=[4095, 4096])], 'sk', results, ['C08', 'C09', 'C10'])
            check_sections(funcs, 'sk_encode', P, 'bit_pack', [dict(base=128, step=Ee, count=L, params=[eta, eta]), dict(base=128 + L * Ee, step=Ee, count=K, params=[eta, eta]),
                                                             dict(base=128 + (L + K) * Ee, step=T0, count=K, params=[4095, 4096])], 'sk', results, ['C08', 'C09', 'C04'])
            check_sections(funcs, 'pk_decode', P, 'simple_bit_unpack', [dict(base=32, step=T1, count=K, params=[1023])], 'pk', results, ['C08', 'C09'])
            check_sections(funcs, 'w1_encode', P, 'simple_bit_pack', [dict(base=0, step=W, count=K, params=[(Q - 1) // (2 * g2) - 1])], 'w1_tilde', results, ['C08', 'C02', 'C03'])
        except e2.Refuse as ex:
            results.append({'name': f'[{sname}] layout obligations', 'tags': ['C08'], 'verdict': 'refused', 'detail': str(ex)})
        for r in results[n0:]:
            if not r['name'].startswith('['):
                r['name'] = f'[{sname}] ' + r['name']
