"""FIPS 204 reference formulas as z3 terms (bit-vector flavour, evaluated at 64 bits so nothing wraps)."""
import z3

Q = 8380417
D = 13
G44 = (Q - 1) // 88
G65 = (Q - 1) // 32


def sx(x, w=64):
    return z3.SignExt(w - x.size(), x) if x.size() < w else x


def bv(v, w=64):
    return z3.BitVecVal(v, w)


def emod(x, m):
    """x mod m in [0, m) for a positive python constant m (x: signed 64-bit term)"""
    r = z3.SRem(x, bv(m))
    return z3.If(r < 0, r + m, r)


def mod_pm(x, alpha):
    r = emod(x, alpha)
    return z3.If(2 * r <= alpha, r, r - alpha)


def power2round(r):
    rp = emod(r, Q)
    r0 = mod_pm(rp, 1 << D)
    return (rp - r0) / bv(1 << D), r0


def decompose(g2, r):
    rp = emod(r, Q)
    r0 = mod_pm(rp, 2 * g2)
    corner = (rp - r0) == Q - 1
    r1 = z3.If(corner, bv(0), (rp - r0) / bv(2 * g2))
    return r1, z3.If(corner, r0 - 1, r0)


def high_bits(g2, r):
    return decompose(g2, r)[0]


def low_bits(g2, r):
    return decompose(g2, r)[1]


def make_hint(g2, z, r):
    return high_bits(g2, r) != high_bits(g2, r + z)


def use_hint(g2, h, r):
    m = (Q - 1) // (2 * g2)
    r1, r0 = decompose(g2, r)
    return z3.If(z3.And(h == 1, r0 > 0), emod(r1 + 1, m), z3.If(z3.And(h == 1, r0 <= 0), emod(r1 - 1, m), r1))
