"""C14 - secret-independent control flow and addressing at the MIR level (non-interference, self-composition by the solver).

Every body of the crate that key generation + signing reach in constant-time test mode (CTEST = true) is executed
symbolically (lib/e2.py, skeleton mode: calls into core / sha3 uninterpreted, scalar crate functions inlined, loops cut after
one iteration from a havocked loop state).  Everything derived from the random generator (xi, rnd, the expanded private key)
is *tainted*.  Observations:
  * every `switchInt` whose discriminant mentions a tainted symbol,
  * every array index / slice bound that mentions a tainted symbol,
  * every call whose running time depends on content by contract (any / find / position / slice comparisons / take_while ...)
    with tainted content.
For each observation the solver is asked for two executions that agree on all public symbols, both satisfy the path condition
and the success assumptions, and differ in the observed value (2-safety).  `unsat` = the observation is constant over secrets.

Outside the claim (assumptions, listed in the evidence): bodies outside the crate (core iterators, Ord::max, abs, sha3, zeroize)
are constant-time in their content and variable only in their shape (lengths); the compiler preserves source-level
data-independence; tuple fields of type usize handed to closures by iterator adaptors are public counters."""
import re
import z3
import e2

PUBLIC_PREFIX = ('param:', 'len(', 'const:', 'str:', 'fmt-')
# iterator adaptors / consumers whose *shape* (number of items, early exit) depends on the content
CONTENT_DEP_SHAPE = {'filter', 'filter_map', 'take_while', 'skip_while', 'map_while', 'scan', 'split', 'splitn', 'dedup', 'flatten_secret'}
LEAKY_CONSUMERS = {'find', 'find_map', 'position', 'rposition', 'try_fold', 'try_for_each', 'starts_with', 'ends_with', 'contains', 'binary_search', 'strip_prefix'}
VARTIME_COMPARE = {'eq', 'ne', 'cmp', 'partial_cmp', 'lt', 'le', 'gt', 'ge'}
ASSUME_TRUE = {'all', 'is_in_range'}        # "range checks are constant-time on success" (property statement)
ASSUME_FALSE = {'any'}                       # the same check written as !any(out of range): complete traversal when nothing matches


def short(callee):
    c = re.sub(r'::<.*>$', '', callee)
    m = re.match(r'^<.* as ([\w:]+)>::(\w+)$', c)
    if m:
        return m.group(2)
    return c.split('::')[-1]


def successors(f):
    succ = {}
    for bb, ls in f.blocks.items():
        term = ls[-1] if ls else ''
        term = re.sub(r'unwind: bb\d+', '', term)
        succ[bb] = re.findall(r'bb\d+', term.split('->', 1)[1]) if '->' in term else []
    return succ


def loop_info(f):
    """-> {head: (body blocks, assigned locals)} for the natural loops of f"""
    succ = successors(f)
    pred = {}
    for b, ss in succ.items():
        for s_ in ss:
            pred.setdefault(s_, set()).add(b)
    back = []
    state = {}
    stack = [('bb0', iter(succ.get('bb0', [])))]; state['bb0'] = 1
    while stack:
        bb, it = stack[-1]
        nxt = next(it, None)
        if nxt is None:
            state[bb] = 2; stack.pop(); continue
        if state.get(nxt) == 1:
            back.append((bb, nxt))
        elif nxt not in state:
            state[nxt] = 1; stack.append((nxt, iter(succ.get(nxt, []))))
    loops = {}
    for tail, head in back:
        body = loops.setdefault(head, {head})
        work = [tail]
        while work:
            b = work.pop()
            if b in body:
                continue
            body.add(b)
            work += list(pred.get(b, ()))
    out = {}
    for head, body in loops.items():
        assigned = set()
        for b in body:
            for line in f.blocks.get(b, []):
                m = re.match(r'^\(?\*?\(?(_\d+)', line)
                if m and ' = ' in line:
                    assigned.add(m.group(1))
                for mm in re.finditer(r'&mut (_\d+)\b', line):
                    assigned.add(mm.group(1))
        out[head] = (body, assigned)
    return out


def failure_only_blocks(f):
    """blocks from which every way to `return` passes an Err-construction / residual propagation, or that end in a panic"""
    succ = successors(f)
    fail = set()
    rets = set()
    for bb, ls in f.blocks.items():
        txt = '\n'.join(ls)
        if re.search(r'_0 = (?:core::result::)?Result::<[^\n]*>::Err\(', txt) or 'FromResidual' in txt and '_0 = ' in txt:
            fail.add(bb)
        if ls and ls[-1].strip() == 'return':
            rets.add(bb)
    pred = {}
    for b, ss in succ.items():
        for s_ in ss:
            pred.setdefault(s_, set()).add(b)
    good = set()
    work = [r for r in rets if r not in fail]
    while work:
        b = work.pop()
        if b in good or b in fail:
            continue
        good.add(b)
        work += [p for p in pred.get(b, ()) if p not in fail]
    return set(f.blocks) - good


def term_syms(t, acc=None):
    acc = {} if acc is None else acc
    seen = set()
    def w(x):
        if x.get_id() in seen:
            return
        seen.add(x.get_id())
        if z3.is_const(x) and x.decl().kind() == z3.Z3_OP_UNINTERPRETED:
            acc[x.decl().name()] = x
        for c in x.children():
            w(c)
    w(t)
    return acc


class Analysis:
    """one function instance with a taint assignment for its roots (parameters / captured variables, by debug name)"""

    def __init__(self, funcs, fname, roots, params, default_tainted=True):
        self.funcs = funcs; self.fname = fname; self.f = funcs[fname]
        self.roots = dict(roots)
        self.params = params
        self.default_tainted = default_tainted
        self.calltaint = {}; self.callshape = {}
        self.hv = {}                     # havoc symbol -> tainted?
        self.unknown_roots = set()
        self.loops = loop_info(self.f)
        self.failblocks = {}
        self.unchecked = set()           # results of range checks that steer normal control flow (both arms live): no success assumption for them
        self.success = None              # closures consumed by `all`: only executions that return true count (CT on success)
        self.enabled = set()             # loop heads whose back edge is feasible: their loop-carried locals are havocked
        self.tag = re.sub(r'\W', '_', fname)
        self.reset()

    def reset(self):
        self.branches = []; self.indices = []; self.leaky = []; self.callouts = []; self.assumed = []

    # ------------------------------------------------------------------ taint of names / values
    def name_tainted(self, name):
        name = name.strip().strip('|').lstrip('&').strip()
        for pre in ('mem:', 'in:'):
            if name.startswith(pre):
                name = name[len(pre):]
        name = name.lstrip('(*').strip()
        if name in self.hv:
            return self.hv[name]
        m0 = re.match(r'^(hv:[\w:@]+)', name)
        if m0:
            return self.hv.get(m0.group(1), False)
        if name.startswith(PUBLIC_PREFIX) or name.startswith('closure@') or name == 'env':
            return False
        if name.startswith('disc('):
            return self.shape_of_name(name[5:].rstrip(')'))
        if name.startswith('repeat('):
            return self.name_tainted(name[7:].rstrip(')'))
        if name.startswith('arg:'):
            return self.root_tainted(name[4:])
        m = re.match(r'^(?:call|out\d+):.+?#(\d+)', name)
        if m:
            return self.calltaint.get(int(m.group(1)), True)
        if name.startswith('struct:'):
            return False                # fields are visited through .meta
        m = re.match(r'^([A-Za-z_]\w*\.\d+)', name)
        if m and m.group(1) in self.roots:
            return self.roots[m.group(1)]
        m = re.match(r'^([A-Za-z_]\w*)', name)
        if m:
            return self.root_tainted(m.group(1))
        return False

    def root_tainted(self, root):
        if root in self.roots:
            return self.roots[root]
        if re.match(r'^_\d+$', root):
            return False                # an unwritten local: nothing flows from it
        self.unknown_roots.add(root)
        return self.default_tainted

    def shape_of_name(self, name):
        name = name.strip().strip('|').lstrip('&')
        m = re.match(r'^(?:call|out\d+):.+?#(\d+)', name)
        if m:
            return self.callshape.get(int(m.group(1)), True)
        return False

    def taint(self, E, v, st, depth=0):
        if v is None or depth > 6:
            return False
        if isinstance(v, e2.Ref):
            key = v.t if isinstance(v.t, str) else E.key_str(v.t)
            if isinstance(key, str) and key in st and st[key] is not v:
                return self.taint(E, st[key], st, depth + 1) or any(self.taint(E, x, st, depth + 1) for k, x in st.items() if isinstance(k, str) and k.startswith(key + '.') or isinstance(k, str) and k.startswith(key + '['))
            return self.name_tainted(str(key))
        if isinstance(v, e2.Opaque):
            t = False
            if isinstance(v.meta, dict):
                t = any(self.taint(E, x, st, depth + 1) for x in v.meta.values() if isinstance(x, e2.Val))
            return t or self.name_tainted(str(v.t))
        if isinstance(v, e2.Enum):
            t = self.term_tainted(v.t)
            for fields in (v.meta or {}).values():
                t = t or any(self.taint(E, x, st, depth + 1) for x in fields if isinstance(x, e2.Val))
            return t
        if isinstance(v, e2.Val):
            if isinstance(v.t, tuple):
                return any(self.taint(E, x, st, depth + 1) for x in v.t if isinstance(x, e2.Val))
            if isinstance(v.t, z3.ExprRef):
                return self.term_tainted(v.t)
        return False

    def term_tainted(self, t):
        return any(self.name_tainted(n) for n in term_syms(t))

    def shape(self, E, v, st, depth=0):
        """does the *shape* (length / number of items) of an iterator-like value depend on tainted data?"""
        if v is None or depth > 6:
            return False
        if isinstance(v, e2.Ref):
            key = v.t if isinstance(v.t, str) else E.key_str(v.t)
            if isinstance(key, str) and key in st and st[key] is not v:
                return self.shape(E, st[key], st, depth + 1)
            return self.shape_of_name(str(key))
        if isinstance(v, e2.Opaque):
            if isinstance(v.meta, dict) and str(v.t).startswith('struct:') and 'Range' in str(v.t):
                return any(self.taint(E, x, st, depth + 1) for x in v.meta.values() if isinstance(x, e2.Val))
            return self.shape_of_name(str(v.t))
        return False

    # ------------------------------------------------------------------ observer interface (called by e2.Exec)
    def on_block(self, E, f, bb, st, pc):
        if f.name != self.fname or bb not in self.loops or bb not in self.enabled or bb in st.get('@trail', ()):
            return
        body, assigned = self.loops[bb]
        for l in sorted(assigned):
            if l not in st and l not in f.locals:
                continue
            ty = f.locals.get(l, '')
            name = f'hv:{self.tag}:{l}@{bb}'
            old = st.get(l)
            if old is not None and self.taint(E, old, st):
                self.mark_hv(name)
            # keep values that the loop provably re-creates before use?  no: havoc everything assigned in the loop
            if ty in e2.INT or ty == 'bool':
                st[l] = E.sym(name, ty)
            else:
                if isinstance(old, e2.Ref):
                    continue            # a reference local re-pointed inside the loop: its target cells carry the data
                o = e2.Opaque(name, ty)
                st[l] = o
            for k in [k for k in st if isinstance(k, str) and (k.startswith(l + '.') or k.startswith(l + '['))]:
                if self.taint(E, st[k], st):
                    self.mark_hv(name)
                del st[k]
        self.hv.setdefault('@heads', set()).add(bb) if False else None

    def mark_hv(self, name):
        if not self.hv.get(name):
            self.hv[name] = True
            self.changed = True

    def on_branch(self, E, fn, bb, v, pc, st, arms):
        t = v.t
        if not isinstance(t, z3.ExprRef):
            return
        ts = z3.simplify(t)
        if z3.is_true(ts) or z3.is_false(ts) or z3.is_bv_value(ts):
            return
        self.branches.append({'fn': fn, 'bb': bb, 'term': t, 'pc': pc, 'arms': arms, 'ty': v.ty})

    def on_index(self, E, fn, bb, iv, pc, st):
        t = iv.t if isinstance(iv, e2.Val) else None
        if not isinstance(t, z3.ExprRef):
            return
        ts = z3.simplify(t)
        if z3.is_bv_value(ts):
            return
        self.indices.append({'fn': fn, 'bb': bb, 'term': t, 'pc': pc if pc is not None else z3.BoolVal(True)})

    def on_call(self, E, rec, st):
        s = short(rec['callee'])
        argv = rec['argv']
        content = any(self.taint(E, a, st) for a in argv)
        shp = any(self.shape(E, a, st) for a in argv)
        base = re.sub(r'::<.*>$', '', rec['callee'])
        crate_fn = base in self.funcs
        if s in CONTENT_DEP_SHAPE and content:
            shp = True
        if s in ('len', 'is_empty', 'count'):
            content = shp
        if s == 'next' or s == 'next_back':
            pass                        # payload: content; discriminant: shape (see name_tainted('disc(...)'))
        if crate_fn:
            shp = content               # unknown summary: a crate function's result shape may depend on its inputs
        self.calltaint[rec['id']] = content
        self.callshape[rec['id']] = shp
        where = {'fn': rec['fn'], 'bb': rec['bb'], 'callee': base, 'args': [a[:80] for a in rec['args']], 'pc': rec['pc']}
        if not crate_fn:
            if s in LEAKY_CONSUMERS and content:
                self.leaky.append({**where, 'why': f'`{s}` stops early depending on the items (content is secret-derived)'})
            elif s in VARTIME_COMPARE and content and not all(isinstance(a, e2.Val) and not isinstance(a, (e2.Ref, e2.Opaque, e2.Enum)) for a in argv):
                self.leaky.append({**where, 'why': f'`{s}` on a non-scalar compares element-wise and stops at the first difference (secret-derived operands)'})
            elif s in ('index', 'index_mut', 'get', 'get_mut', 'get_unchecked', 'split_at', 'split_at_mut') and len(argv) > 1 and self.taint(E, argv[1], st):
                self.leaky.append({**where, 'why': f'`{s}` with a secret-derived position / range (memory address depends on secret data)'})
            elif s in ('into_iter', 'iter', 'step_by', 'take', 'skip', 'nth') and shp and not content:
                pass
        if s in ASSUME_TRUE:
            self.assumed.append(rec['result'])
        # callees to analyse: crate functions and closures handed to core
        arg_t = [self.taint(E, a, st) for a in argv]
        if crate_fn:
            self.callouts.append(('fn', base, arg_t, None, False))
        for i, a in enumerate(argv):
            span = None; caps = {}
            if isinstance(a, e2.Opaque) and str(a.t).startswith('closure@'):
                span = str(a.t)[len('closure@'):]
                caps = {k: self.taint(E, x, st) for k, x in (a.meta or {}).items()} if isinstance(a.meta, dict) else {}
            elif isinstance(a, e2.Val) and isinstance(a.t, str) and 'closure@' in a.t:
                mm = re.search(r'\{closure@([^}]*)\}', a.t)
                span = mm.group(1) if mm else None
                caps = {}
            if span is None and isinstance(a, e2.Val) and isinstance(a.t, str):
                # a function item handed to a library call (`.map(row_norm)`): the callee runs on the items
                mf = re.search(r'fn\([^{}]*\{([\w:]+)\}', a.t) or re.match(r'^arg:((?:\w+::)*\w+)$', a.t.strip())
                if mf:
                    cand = [n for n in (mf.group(1), mf.group(1).split('::')[-1]) if n in self.funcs]
                    if cand:
                        others = [t for j, t in enumerate(arg_t) if j != i]
                        g = self.funcs[cand[0]]
                        self.callouts.append(('fn', cand[0], [any(others)] * len(g.params), None, False))
            if span:
                others = [t for j, t in enumerate(arg_t) if j != i]
                item_t = False if s == 'from_fn' else any(others)
                self.callouts.append(('closure', span, item_t, caps, True if s in ASSUME_TRUE else ('false' if s in ASSUME_FALSE else False)))


QUERIES = []


def semantic_dependence(A, obs, kind, timeout_s=20):
    import time as _t
    t0 = _t.time()
    v, m = _semantic_dependence(A, obs, kind, timeout_s)
    if v != 'public':
        QUERIES.append({'fn': obs['fn'], 'bb': obs['bb'], 'kind': kind, 'verdict': v, 'solver_s': round(_t.time() - t0, 3)})
    return v, m


def _semantic_dependence(A, obs, kind, timeout_s=20):
    """2-safety query: two executions that agree on every public symbol, both on this path, differ in the observed value"""
    import zutil
    term = obs['term']; pc = obs['pc'] if obs.get('pc') is not None else z3.BoolVal(True)
    syms = term_syms(term); term_syms(pc, syms)
    tainted = {n: x for n, x in syms.items() if A.name_tainted(n)}
    if not any(n in tainted for n in term_syms(term)):
        return 'public', None
    sub = [(x, z3.Const(n + "'", x.sort())) for n, x in tainted.items()]
    t2 = z3.substitute(term, *sub); pc2 = z3.substitute(pc, *sub)
    assume = []
    for n, x in syms.items():
        m = re.match(r'^call:.*?(\w+)#\d+$', n)
        if n in A.unchecked:
            continue
        if m and m.group(1) in ASSUME_TRUE and z3.is_bool(x):
            assume += [x, z3.substitute(x, *sub)]
        if m and m.group(1) in ASSUME_FALSE and z3.is_bool(x):
            assume += [z3.Not(x), z3.Not(z3.substitute(x, *sub))]
    if A.success is not None:
        syms2 = term_syms(A.success)
        sub2 = [(x, z3.Const(n + "'", x.sort())) for n, x in syms2.items() if A.name_tainted(n)]
        assume += [A.success, z3.substitute(A.success, *sub2)]
    r = zutil.check(pc, pc2, *assume, term != t2, timeout_s=timeout_s)
    if r == z3.unsat:
        return 'constant', None
    if r == z3.sat:
        s = z3.Solver(); s.set('timeout', 20000); s.add(pc, pc2, *assume, term != t2)
        model = {}
        if s.check() == z3.sat:
            m = s.model()
            for n, x in tainted.items():
                try:
                    model[n] = (str(m.eval(x, model_completion=True)), str(m.eval(z3.Const(n + "'", x.sort()), model_completion=True)))
                except Exception:  # noqa: BLE001
                    pass
        return 'dependent', model
    return 'unknown', None


def closure_fn(funcs, span, creator):
    cands = [n for n, g in funcs.items() if g.params and f'{{closure@{span}}}' in g.params[0][1]]
    if len(cands) == 1:
        return cands[0]
    own = [n for n in cands if n.startswith(creator.split('::{closure')[0])]
    return own[0] if len(own) == 1 else (cands[0] if cands else None)


def analyse_function(funcs, fname, roots, params, assume_true=False, max_rounds=6):
    """-> (Analysis, findings, callouts); findings = [dict(kind, fn, bb, what, model)]"""
    f = funcs[fname]
    A = Analysis(funcs, fname, roots, params)
    paths = []
    for rnd in range(max_rounds):
        A.reset(); A.changed = False
        A.calltaint = {}; A.callshape = {}
        E = e2.Exec(funcs, mode='bv', inline=None, params=params)
        E.cut_loops = True; E.observer = A; E.max_paths = 4000
        st = E.init_params(f, None)
        # closure parameters (items handed over by the consumer): tuple fields of type usize are public counters
        res, obl = E.run(fname, [], init=st)
        paths = list(E.path_states) + [(pc, r) for pc, r in res if isinstance(r, dict) and r.get('@stop')]
        # loop-carried taint: a havocked local whose value at a back edge is tainted; roots that receive tainted data
        for pc, stp in paths:
            if not isinstance(stp, dict):
                continue
            stop = stp.get('@stop', '')
            if isinstance(stop, str) and stop.startswith('loop:'):
                head = stop[5:]
                if head not in A.enabled:
                    import zutil
                    if zutil.check(pc, timeout_s=10) != z3.unsat:
                        A.enabled.add(head); A.changed = True
                    continue
                body, assigned = A.loops.get(head, (set(), set()))
                for l in assigned:
                    name = f'hv:{A.tag}:{l}@{head}'
                    vals = [stp.get(l)] + [stp[k] for k in stp if isinstance(k, str) and (k.startswith(l + '.') or k.startswith(l + '['))]
                    if any(v is not None and A.taint(E, v, stp) for v in vals):
                        A.mark_hv(name)
            for k, v in stp.items():
                if not isinstance(k, str) or k.startswith('@') or not isinstance(v, e2.Val):
                    continue
                m = re.match(r'^([A-Za-z_]\w*)[\.\[]', k)
                if m and m.group(1) in A.roots and not A.roots[m.group(1)] and not re.match(r'^_\d+$', m.group(1)) and A.taint(E, v, stp):
                    A.roots[m.group(1)] = True; A.changed = True
        if assume_true:
            rets = [(pc, r) for pc, r in res if isinstance(r, e2.Val) and not isinstance(r, (e2.Ref, e2.Opaque, e2.Enum)) and r.ty == 'bool' and isinstance(r.t, z3.ExprRef)]
            A.success = z3.Or(*[z3.And(pc, z3.Not(r.t) if assume_true == 'false' else r.t) for pc, r in rets]) if rets else None
        if not A.changed:
            break
    findings = []
    fb = {}
    def failblocks(fn):
        if fn not in fb:
            fb[fn] = failure_only_blocks(funcs[fn]) if fn in funcs else set()
        return fb[fn]
    # "constant-time on success" only covers checks whose failure ends the operation: a range-check result that steers ordinary control flow
    # (both arms live) makes the check's early exit, and the branch, depend on the data
    for b in A.branches:
        arms = re.findall(r'(\w+): (bb\d+)', b['arms'])
        live = [tgt for _, tgt in arms if tgt not in failblocks(b['fn'])]
        if len(live) <= 1:
            continue
        for n in term_syms(b['term']):
            m = re.match(r'^call:.*?(\w+)#(\d+)$', n)
            if m and (m.group(1) in ASSUME_TRUE or m.group(1) in ASSUME_FALSE) and A.calltaint.get(int(m.group(2)), False) and n not in A.unchecked:
                A.unchecked.add(n)
                findings.append({'kind': 'call', 'fn': b['fn'], 'bb': b['bb'], 'verdict': 'dependent', 'what': f'result of the range check `{m.group(1)}` on secret data steers ordinary control flow (both outcomes continue): its early exit and this branch depend on the data', 'model': None})
    seen = set()
    for b in A.branches:
        key = (b['fn'], b['bb'])
        arms = re.findall(r'(\w+): (bb\d+)', b['arms'])
        live = [tgt for _, tgt in arms if tgt not in failblocks(b['fn'])]
        if len(live) <= 1:
            continue                    # assertion / error propagation: all but one arm end in a panic or an Err return
        verdict, model = semantic_dependence(A, b, 'branch')
        if verdict in ('public', 'constant'):
            continue
        if key in seen:
            continue
        seen.add(key)
        findings.append({'kind': 'branch', 'fn': b['fn'], 'bb': b['bb'], 'verdict': verdict, 'what': f'switchInt on a secret-dependent value: {str(z3.simplify(b["term"]))[:160]}', 'model': model})
    seen = set()
    for ix in A.indices:
        key = (ix['fn'], ix['bb'])
        verdict, model = semantic_dependence(A, ix, 'index')
        if verdict in ('public', 'constant') or key in seen:
            continue
        seen.add(key)
        findings.append({'kind': 'index', 'fn': ix['fn'], 'bb': ix['bb'], 'verdict': verdict, 'what': f'array index depends on secret data: {str(z3.simplify(ix["term"]))[:160]}', 'model': model})
    seen = set()
    for lk in A.leaky:
        key = (lk['fn'], lk['bb'])
        if key in seen:
            continue
        seen.add(key)
        findings.append({'kind': 'call', 'fn': lk['fn'], 'bb': lk['bb'], 'verdict': 'dependent', 'what': f'{lk["callee"][:80]}: {lk["why"]}', 'model': None})
    return A, findings, A.callouts, len(paths)


def analyse_program(funcs, entries, params, log=None):
    """entries: [(function, {root: tainted?})]; worklist over crate callees and closures -> (findings, per-function stats)"""
    work = [(fn, dict(roots), False) for fn, roots in entries]
    done = {}
    findings = []; stats = {}
    guard = 0
    while work and guard < 600:
        guard += 1
        fn, roots, assume = work.pop()
        if fn not in funcs:
            continue
        f = funcs[fn]
        # complete the root assignment: parameters by debug name
        full = {}
        for l, t in f.params:
            nm = f.debug.get(l, l)
            if '{closure@' in t:
                continue
            full[nm] = roots.get(nm, False)
        for k, v in roots.items():
            full.setdefault(k, v)
        prev = done.get(fn)
        if prev is not None:
            merged = {k: prev.get(k, False) or full.get(k, False) for k in set(prev) | set(full)}
            if merged == prev:
                continue
            full = merged
        done[fn] = full
        try:
            A, fnd, callouts, npaths = analyse_function(funcs, fn, full, params, assume_true=assume)
        except e2.Refuse as ex:
            stats[fn] = {'refused': str(ex)[:200]}
            findings.append({'kind': 'refused', 'fn': fn, 'bb': '', 'verdict': 'unknown', 'what': f'translator refused: {ex}', 'model': None})
            continue
        stats[fn] = {'paths': npaths, 'branches': len(A.branches), 'indices': len(A.indices), 'roots': {k: v for k, v in full.items()}, 'unknown_roots': sorted(A.unknown_roots)[:8]}
        if log:
            log(f'    {fn}: {npaths} paths, {len(A.branches)} symbolic branches, {len(A.indices)} symbolic indices, tainted roots {sorted(k for k, v in full.items() if v)} -> {len(fnd)} finding(s)')
        # findings of a re-analysis replace the earlier ones of the same function
        findings = [x for x in findings if x['fn'] != fn and not x['fn'].startswith(fn + '::{closure')] + fnd if False else findings + fnd
        for kind, target, arg_t, caps, assume_c in callouts:
            if kind == 'fn':
                g = funcs.get(target)
                if not g:
                    continue
                names = [g.debug.get(l, l) for l, t in g.params if '{closure@' not in t]
                work.append((target, {n: bool(t) for n, t in zip(names, arg_t)}, False))
            else:
                cf = closure_fn(funcs, target, fn)
                if not cf:
                    continue
                g = funcs[cf]
                r = dict(caps or {})
                plocals = {l for l, t in g.params[1:]}
                for l, t in g.params[1:]:
                    nm = g.debug.get(l, l)
                    nm = nm if nm != l else 'p' + l
                    r[nm] = bool(arg_t) and t != 'usize'
                    if t.startswith('(') and t.endswith(')'):
                        import mir as _mir
                        for i, ft in enumerate(_mir.split_top(t[1:-1])):
                            if ft.strip() == 'usize':
                                r[f'{nm}.{i}'] = False          # (index, item) pairs of enumerate(): the counter is public
                for place, nm in g.debug.items():
                    mm = re.match(r'^\(?\(?\*?(_\d+)\)?\.\d+: ([^)]*)\)', place)
                    if mm and mm.group(1) in plocals:
                        r[nm] = bool(arg_t) and mm.group(2).strip() != 'usize'      # destructured item: usize fields are public counters
                work.append((cf, r, assume_c))
    # de-duplicate (a function may have been analysed under growing taint assignments)
    uniq = {}
    for x in findings:
        uniq[(x['kind'], x['fn'], x['bb'])] = x
    return list(uniq.values()), stats
