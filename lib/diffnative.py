"""native differential tests (real crate vs spec-literal reference) used to confirm skeleton / lemma mismatches"""
import os
import re
import vlib


def source(seed, n_seeds, n_msgs):
    tmpl = open(os.path.join(vlib.VERIF, 'replay', 'diff.rs')).read().replace('@VERIF@', vlib.VERIF)
    return f'const SEED: u64 = {seed};\nconst N_SEEDS: usize = {n_seeds};\nconst N_MSGS: usize = {n_msgs};\n' + tmpl


def run(scr, what, seed=1, n_seeds=2, n_msgs=6, release=True, timeout=2400, checked=False):
    oc, out = vlib.native_test(scr, source(seed, n_seeds, n_msgs), 'diff_' + what, release=release, timeout=timeout, checked=checked)
    msgs = [l.strip() for l in out.splitlines() if l.startswith('DIFF ') or l.startswith('STATS') or 'VERIF-PROPERTY' in l or 'panicked at src/' in l]
    if oc == 'error':
        msgs.append(out[-1200:])
    return oc, msgs
