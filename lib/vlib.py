"""Shared machinery of the fips204 solver-based checks.

* Scratch: a fresh copy of /repo's *current working tree* with the Kani harness
  module, the native replay module and the oracle model crates injected.
* KaniJob / run_kani_jobs: run `cargo kani` harnesses (engine E1) in parallel,
  each with its own target dir, under a time and memory cap; parse verdicts.
* Run: accumulates per-query results, writes /verif/evidence/<id>.json, prints
  VIOLATION / KNOWN-FINDING lines and computes the exit status.
"""
import hashlib
import json
import os
import re
import resource
import shutil
import signal
import subprocess
import sys
import time
from concurrent.futures import ThreadPoolExecutor

VERIF = os.path.dirname(os.path.dirname(os.path.abspath(__file__)))
REPO = os.environ.get('VERIF_REPO', '/repo')
SCRATCH_ROOT = os.environ.get('VERIF_SCRATCH', '/var/tmp/verif-scratch')
NCPU = os.cpu_count() or 4

ENV = dict(os.environ)
ENV['CARGO_NET_OFFLINE'] = 'true'
ENV.pop('RUSTFLAGS', None)


def log(*a):
    print(*a, flush=True)


def sh(cmd, cwd=None, timeout=None, env=None, mem_gb=None):
    """run a command, return (rc, output, seconds); rc = 'timeout' on timeout"""
    def pre():
        os.setsid()
        if mem_gb:
            lim = int(mem_gb * (1 << 30))
            resource.setrlimit(resource.RLIMIT_AS, (lim, lim))
    t = time.time()
    p = subprocess.Popen(cmd, cwd=cwd, env=env or ENV, stdout=subprocess.PIPE, stderr=subprocess.STDOUT,
                         preexec_fn=pre, text=True, errors='replace')
    try:
        out, _ = p.communicate(timeout=timeout)
        rc = p.returncode
    except subprocess.TimeoutExpired:
        try:
            os.killpg(p.pid, signal.SIGKILL)
        except ProcessLookupError:
            pass
        out, _ = p.communicate()
        rc = 'timeout'
    return rc, out, time.time() - t


def tree_hash(root=None):
    """content hash of the repository working tree (sources + manifests)"""
    root = root or REPO
    h = hashlib.sha256()
    for sub in ('src', 'Cargo.toml', 'Cargo.lock'):
        p = os.path.join(root, sub)
        if os.path.isfile(p):
            h.update(sub.encode()); h.update(open(p, 'rb').read())
        else:
            for d, dirs, files in sorted(os.walk(p)):
                dirs.sort()
                for f in sorted(files):
                    fp = os.path.join(d, f)
                    h.update(os.path.relpath(fp, root).encode()); h.update(open(fp, 'rb').read())
    return h.hexdigest()[:16]


STUB_CANON = {'sign_internal': ['beta', 'gamma1', 'gamma2', 'omega', 'tau', 'esk', 'message', 'ctx', 'oid', 'phm', 'rnd', 'nist'],
              'verify_internal': ['beta', 'gamma1', 'gamma2', 'omega', 'tau', 'epk', 'm', 'sig', 'ctx', 'oid', 'phm', 'nist']}


def _split_params(txt):
    out = []; d = 0; cur = ''
    for ch in txt:
        if ch in '<([{':
            d += 1
        elif ch in '>)]}':
            d -= 1
        if ch == ',' and d == 0:
            out.append(cur); cur = ''
        else:
            cur += ch
    if cur.strip():
        out.append(cur)
    res = []
    for p in out:
        p = ' '.join(p.split())
        if ':' not in p:
            return None
        n, t = p.split(':', 1)
        res.append((n.strip(), t.strip()))
    return res


def adapt_stubs(scr):
    """The wrapper harnesses replace sign_internal / verify_internal by recorders with the same signature.  When the crate's
    signature lists the *same parameters in another order* (names known, `m` / `message` synonyms), the recorder in this run's copy
    of kani/wrappers.rs is regenerated with that order and records by name; any other difference leaves the static stubs."""
    src = open(os.path.join(scr.repo, 'src', 'ml_dsa.rs')).read()
    wp = os.path.join(scr.kani_dir, 'wrappers.rs')
    w = open(wp).read()
    notes = []
    for fn, canon in STUB_CANON.items():
        m = re.search(r'pub\(crate\) fn ' + fn + r'<(.*?)>\(\s*(.*?),?\s*\) -> ([^{]+?)\s*\{', src, re.S)
        if not m:
            continue
        params = _split_params(m.group(2))
        if not params:
            continue
        names = [n for n, _ in params]
        syn = {'message': 'm'} if fn == 'verify_internal' else {'m': 'message'}
        norm = [syn.get(n, n) for n in names]
        if norm == canon or sorted(norm) != sorted(canon):
            continue                    # unchanged, or not a pure reordering of known parameters
        role = {c: names[norm.index(c)] for c in canon}
        msg = role['m'] if fn == 'verify_internal' else role['message']
        key = role['epk'] if fn == 'verify_internal' else role['esk']
        plist = ', '.join(f'{n}: {t}' for n, t in params)
        generics = ' '.join(m.group(1).split())
        common = f"record_common({role['ctx']}, {msg}, {role['oid']}, {role['phm']}, {role['nist']}, [{role['beta']}, {role['gamma1']}, {role['gamma2']}, {role['omega']}, {role['tau']}]);"
        if fn == 'sign_internal':
            body = f"""    unsafe {{
        SIGN_CALLS += 1;
        {common}
        REC_RND = {role['rnd']};
        REC_KEY_PTR = {key} as *const PrivateKey<K, L> as usize;
        REC_CTEST = CTEST;
        REC_DIMS = [K, L, LAMBDA_DIV4, SIG_LEN, SK_LEN, W1_LEN];
    }}
    [0x5Au8; SIG_LEN]
"""
        else:
            body = f"""    unsafe {{
        VERIFY_CALLS += 1;
        {common}
        REC_SIG_PTR = {role['sig']} as *const [u8; SIG_LEN] as usize;
        REC_KEY_PTR = {key} as *const PublicKey<K, L> as usize;
        REC_CTEST = CTEST;
        REC_DIMS = [K, L, LAMBDA_DIV4, PK_LEN, SIG_LEN, W1_LEN];
        VERIFY_ANSWER
    }}
"""
        stub = f"pub(crate) fn {fn}_rec<{generics}>({plist}) -> {m.group(3).strip()} {{\n{body}}}\n"
        mm = re.search(r'pub\(crate\) fn ' + fn + r'_rec<.*?\n\}\n', w, re.S)
        if not mm:
            continue
        w = w[:mm.start()] + stub + w[mm.end():]
        notes.append(f'{fn}: recorder regenerated for the parameter order {names}')
    if notes:
        open(wp, 'w').write(w)
    return '; '.join(notes)


class Scratch:
    """fresh copy of /repo's working tree with the verification modules injected"""

    def __init__(self, tag, models=True):
        os.makedirs(SCRATCH_ROOT, exist_ok=True)
        self.root = os.path.join(SCRATCH_ROOT, f'{tag}-{os.getpid()}')
        shutil.rmtree(self.root, ignore_errors=True)
        os.makedirs(self.root)
        self.repo = os.path.join(self.root, 'repo')
        rc, out, _ = sh(['rsync', '-a', '--exclude', 'target', '--exclude', '.git', REPO + '/', self.repo + '/'])
        if rc != 0:
            raise RuntimeError('rsync failed: ' + out)
        self.hash = tree_hash(self.repo)
        self.replay_dir = os.path.join(self.root, 'replay_mod')
        os.makedirs(self.replay_dir)
        open(os.path.join(self.replay_dir, 'mod.rs'), 'w').write('// no replay loaded\n')
        # the harness module is used from a per-run copy so that the recorder stubs can follow a reordered internal signature
        self.kani_dir = os.path.join(self.root, 'kani')
        shutil.copytree(os.path.join(VERIF, 'kani'), self.kani_dir)
        try:
            self.stub_note = adapt_stubs(self)
        except Exception as ex:  # noqa: BLE001 - the static stubs stay in place
            self.stub_note = 'stub adaptation skipped: ' + repr(ex)[:200]
        with open(os.path.join(self.repo, 'src', 'lib.rs'), 'a') as f:
            f.write(f'''

#[cfg(kani)]
#[path = "{self.kani_dir}/mod.rs"]
mod verif_kani;

#[cfg(test)]
#[allow(warnings, clippy::all, clippy::pedantic, unsafe_code, missing_docs, dead_code, unused_results, trivial_casts, trivial_numeric_casts, unused_qualifications, unreachable_pub, single_use_lifetimes, elided_lifetimes_in_paths, absolute_paths_not_starting_with_crate, let_underscore_drop)]
#[path = "{self.replay_dir}/mod.rs"]
mod verif_replay;
''')
        # second copy of the manifest with the oracle model crates patched in (Kani builds only)
        self.kani_repo = self.repo
        if models:
            with open(os.path.join(self.repo, 'Cargo.toml'), 'a') as f:
                f.write(f'''

[patch.crates-io]
sha3 = {{ path = "{VERIF}/models/sha3" }}
sha2 = {{ path = "{VERIF}/models/sha2" }}
''')
        # native (replay / MIR) builds use an unpatched manifest in a sibling copy of the manifest only
        self.native = os.path.join(self.root, 'native')
        os.makedirs(self.native)
        for name in os.listdir(self.repo):
            if name in ('Cargo.toml', 'Cargo.lock'):
                continue
            os.symlink(os.path.join(self.repo, name), os.path.join(self.native, name))
        shutil.copy(os.path.join(REPO, 'Cargo.toml'), os.path.join(self.native, 'Cargo.toml'))
        if os.path.exists(os.path.join(REPO, 'Cargo.lock')):
            shutil.copy(os.path.join(REPO, 'Cargo.lock'), os.path.join(self.native, 'Cargo.lock'))
        self._tcount = 0
        self._base_target = None

    def target_dir(self, name):
        d = os.path.join(self.root, 'target-' + name)
        return d

    def cleanup(self):
        shutil.rmtree(self.root, ignore_errors=True)


# --------------------------------------------------------------------------- Kani

class Harness:
    def __init__(self, name, prop, *, timeout=600, mem_gb=12, unwindset=None, best_effort=False, note='', bounds='',
                 expect_covers=True, replay=None, tier='quick', extra_args=None, group=None, loop_rules=None):
        self.name = name; self.prop = prop; self.timeout = timeout; self.mem_gb = mem_gb
        self.unwindset = unwindset or {}; self.best_effort = best_effort; self.note = note; self.bounds = bounds
        self.expect_covers = expect_covers; self.replay = replay; self.tier = tier
        self.extra_args = extra_args or []; self.group = group
        self.loop_rules = loop_rules or []     # [(regex on the loop's function name, unwind bound)] resolved to loop ids via cbmc --show-loops


class HarnessResult:
    def __init__(self, h):
        self.h = h
        self.status = 'error'      # success | failed | vacuous | timeout | oom | error
        self.time = 0.0
        self.checks = 0
        self.failed = []           # [(check-name, description, location)]
        self.covers = []           # [(description, status)]
        self.log = ''
        self.detail = ''

    def summary(self):
        return {'harness': self.h.name, 'engine': 'E1 kani/cbmc', 'verdict': self.status, 'solver_s': round(self.time, 1),
                'checks': self.checks, 'failed': [f'{d} @ {l}' for (_, d, l) in self.failed][:6],
                'covers': [f'{d}: {s}' for d, s in self.covers][:12], 'bounds': self.h.bounds,
                'best_effort': self.h.best_effort, 'detail': self.detail}


CHECK_RE = re.compile(r'Check \d+: ([^\n]+)\n\s+- Status: (\w+)\n\s+- Description: "(.*?)"\n\s+- Location: (.*?)\n', re.S)


def parse_kani(out, res):
    res.log = out
    m = re.search(r'Verification Time: ([0-9.]+)s', out)
    if m:
        res.time = float(m.group(1))
    cov = {}
    for name, status, desc, loc in CHECK_RE.findall(out):
        loc = re.sub(r'^(\.\./)+', '/', loc.strip())
        if '.cover.' in name:
            # one source-level cover may be duplicated along several control-flow paths: satisfied if any copy is
            k = (desc.replace('cover condition: ', ''), loc)
            if cov.get(k) != 'SATISFIED':
                cov[k] = status
        else:
            res.checks += 1
            if status == 'FAILURE':
                res.failed.append((name, desc, loc))
    res.covers = [(d, st) for (d, _), st in cov.items()]
    if 'VERIFICATION:- SUCCESSFUL' in out:
        bad = [c for c in res.covers if c[1] != 'SATISFIED']
        if bad and res.h.expect_covers:
            res.status = 'vacuous'; res.detail = 'cover not satisfied: ' + '; '.join(f'{d} ({s})' for d, s in bad)
        else:
            res.status = 'success'
    elif 'VERIFICATION:- FAILED' in out:
        if re.search(r'out of memory|std::bad_alloc|Status: ERROR|memory exhausted|CBMC failed', out, re.I) and not res.failed:
            res.status = 'oom'; res.detail = 'CBMC out of memory / error'
        elif res.failed:
            # an unwinding assertion failure is a bound problem, not a property failure
            unw = [f for f in res.failed if 'unwinding assertion' in f[1]]
            real = [f for f in res.failed if 'unwinding assertion' not in f[1]]
            if unw and not real:
                res.status = 'error'; res.detail = 'unwinding assertion failed (bound too small): ' + unw[0][2]
            elif unw:
                # failures that come with unwinding failures may be artefacts of truncated loops
                res.status = 'error'; res.detail = 'failures together with unwinding-assertion failures: ' + unw[0][2]
            else:
                res.status = 'failed'
        else:
            res.status = 'error'; res.detail = 'FAILED without failed checks'
    else:
        tail = out[-600:]
        if re.search(r'error(\[E\d+\])?:', out):
            res.status = 'error'; res.detail = 'build error: ' + '\n'.join(l for l in out.splitlines() if 'error' in l)[:600]
        else:
            res.status = 'error'; res.detail = 'no verdict: ' + tail
    return res


def kani_cmd(h, target_dir, playback=False):
    cmd = ['cargo', 'kani', '-Z', 'stubbing', '--target-dir', target_dir, '--harness', h.name, '--exact']
    cmd += h.extra_args
    if playback:
        cmd += ['-Z', 'concrete-playback', '--concrete-playback=print']
    cb = []
    if h.unwindset and '-Z' not in ' '.join(cmd[4:]):
        cmd += ['-Z', 'unstable-options']
    if h.unwindset:
        cb += ['--unwindset', ','.join(f'{k}:{v}' for k, v in h.unwindset.items())]
    if cb:
        cmd += ['--cbmc-args'] + cb
    return cmd


def resolve_loop_rules(scr, h, tdir):
    """per-loop unwind bounds: build the harness, list its loops with cbmc --show-loops, apply the rules"""
    cmd = ['cargo', 'kani', '-Z', 'stubbing', '--target-dir', tdir, '--harness', h.name, '--exact', '--only-codegen']
    rc, out, dt = sh(cmd, cwd=scr.kani_repo, timeout=900)
    short = h.name.split('::')[-1]
    import glob
    cands = glob.glob(os.path.join(tdir, 'kani', '*', 'debug', 'build', 'fips204', '*', 'out', f'*{len(short)}{short}.out'))
    if rc != 0 or not cands:
        raise BuildError(f'codegen for loop listing failed ({h.name}): ' + out[-1500:])
    gb = max(cands, key=os.path.getmtime)
    rc, out, dt = sh(['cbmc', '--show-loops', gb], timeout=600)
    loops = re.findall(r'^Loop (\S+):\n\s+file (\S+) line (\d+) .*? function (.*)$', out, re.M)
    us = {}
    for lid, file, line, fn in loops:
        for rx, bound in h.loop_rules:
            if re.search(rx, fn):
                us[lid] = bound
    if not us:
        raise BuildError(f'no loop matched the unwind rules of {h.name} (anchor problem)')
    return us


def run_one_kani(scr, h, slot):
    res = HarnessResult(h)
    tdir = scr.target_dir(f'k{slot}')
    t0 = time.time()
    if h.loop_rules and not h.unwindset:
        try:
            h.unwindset = resolve_loop_rules(scr, h, tdir)
        except BuildError as e:
            res.status = 'error'; res.detail = str(e)[:400]; res.wall = time.time() - t0
            log(f'  [E1] {h.name}: error — {res.detail[:200]}')
            return res
    rc, out, dt = sh(kani_cmd(h, tdir), cwd=scr.kani_repo, timeout=h.timeout, mem_gb=h.mem_gb)
    if rc == 'timeout':
        res.status = 'timeout'; res.time = dt; res.log = out; res.detail = f'exceeded {h.timeout}s cap'
    else:
        parse_kani(out, res)
        if res.time == 0.0:
            res.time = dt
        if res.status == 'error' and re.search(r'memory allocation|Cannot allocate|out of memory|bad_alloc', out):
            res.status = 'oom'
    res.wall = time.time() - t0
    log(f'  [E1] {h.name}: {res.status} ({res.wall:.0f}s wall, solver {res.time:.1f}s)' + (f' — {res.detail[:200]}' if res.detail else ''))
    return res


def run_kani(scr, harnesses, jobs=None):
    """run harnesses in parallel (one cargo-kani process and target dir per worker slot)"""
    if not harnesses:
        return []
    jobs = jobs or min(len(harnesses), max(1, NCPU // 2))
    # warm one target dir (dependencies + kani lib), then clone it for the other slots
    first = scr.target_dir('k0')
    if not os.path.isdir(first):
        rc, out, dt = sh(['cargo', 'kani', '-Z', 'stubbing', '--target-dir', first, '--only-codegen'], cwd=scr.kani_repo, timeout=900)
        if rc != 0:
            raise BuildError('cargo kani --only-codegen failed:\n' + out[-3000:])
        log(f'  [E1] kani build of scratch copy: {dt:.0f}s')
    for i in range(1, jobs):
        d = scr.target_dir(f'k{i}')
        if not os.path.isdir(d):
            shutil.copytree(first, d, symlinks=True)
    import queue
    slots = queue.Queue()
    for i in range(jobs):
        slots.put(i)

    def work(h):
        s = slots.get()
        try:
            return run_one_kani(scr, h, s)
        finally:
            slots.put(s)
    # longest first
    order = sorted(harnesses, key=lambda h: -h.timeout)
    with ThreadPoolExecutor(max_workers=jobs) as ex:
        results = list(ex.map(work, order))
    return results


class BuildError(Exception):
    pass


def kani_playback_values(scr, h):
    """re-run a failing harness with concrete playback and return the list of byte vectors of its kani::any() calls"""
    tdir = scr.target_dir('kpb')
    first = scr.target_dir('k0')
    if not os.path.isdir(tdir) and os.path.isdir(first):
        shutil.copytree(first, tdir, symlinks=True)
    rc, out, dt = sh(kani_cmd(h, tdir, playback=True), cwd=scr.kani_repo, timeout=h.timeout * 3, mem_gb=None)
    open(os.path.join(scr.root, 'playback-' + h.name.split('::')[-1] + '.log'), 'w').write(str(rc) + '\n' + out)
    if rc == 'timeout':
        return None, out
    # one generated test per failed check *and* per satisfied cover: take the first one that belongs to an assertion
    body = None
    for tm in re.finditer(r"/// Check for `(\w+)`: \"(.*?)\"\n.*?let concrete_vals: Vec<Vec<u8>> = vec!\[(.*?)\n\s*\];", out, re.S):
        if tm.group(1) != 'cover':
            body = tm.group(3)
            break
    if body is None:
        return None, out
    vals = []
    for vm in re.finditer(r'vec!\[([0-9, ]*)\]', body):
        b = vm.group(1).strip()
        vals.append(bytes(int(x) for x in b.split(',') if x.strip()) if b else b'')
    return vals, out


# --------------------------------------------------------------------------- native replay

def native_test(scr, rust_source, test_name, release=False, timeout=900, features=None, checked=False):
    """compile `rust_source` as the crate-internal module `verif_replay` (cfg(test)) and run one test.
    returns (outcome, output): outcome in {'pass','fail','error'}"""
    open(os.path.join(scr.replay_dir, 'mod.rs'), 'w').write(rust_source)
    env = dict(ENV)
    env['RUSTFLAGS'] = '--cap-lints allow'
    tdir = 'native'
    if checked:      # optimised build that keeps debug assertions and overflow checks (fast enough for directed searches, panics like a dev build)
        env['RUSTFLAGS'] += ' -C debug-assertions=on -C overflow-checks=on'
        tdir = 'native-chk'
    cmd = ['cargo', 'test', '--offline', '--lib', '--target-dir', scr.target_dir(tdir)]
    if release:
        cmd.append('--release')
    cmd += ['--', '--exact', 'verif_replay::' + test_name, '--nocapture', '--test-threads', '1']
    rc, out, dt = sh(cmd, cwd=scr.native, timeout=timeout, env=env)
    if rc == 'timeout':
        return 'error', out
    if re.search(r'test verif_replay::' + re.escape(test_name) + r' \.\.\. ok', out) or ('test result: ok. 1 passed' in out):
        return 'pass', out
    if re.search(r'test verif_replay::' + re.escape(test_name) + r' \.\.\. FAILED', out) or 'test result: FAILED' in out or 'panicked at' in out:
        return 'fail', out
    return 'error', out


# --------------------------------------------------------------------------- findings / evidence

def load_findings():
    p = os.path.join(VERIF, 'known_findings.json')
    if not os.path.exists(p):
        return {'known': [], 'fixed': []}
    return json.load(open(p))


class Run:
    """one execution of one property's check"""

    def __init__(self, prop, tier, level, seed):
        self.prop = prop; self.tier = tier; self.level = level; self.seed = seed
        self.t0 = time.time()
        self.queries = []          # dicts
        self.violations = []       # (what, replay_path)
        self.known = []
        self.inconclusive = []     # strings
        self.assumptions = []
        self.functions = []
        self.samples = []
        self.extra = {}
        self.findings = load_findings()

    def add_query(self, q, core=True):
        q = dict(q); q['core'] = core
        self.queries.append(q)

    def add_kani_results(self, results):
        for r in results:
            self.add_query(r.summary(), core=not r.h.best_effort)
            if r.status in ('timeout', 'oom', 'error', 'vacuous') and not r.h.best_effort:
                self.inconclusive.append(f'{r.h.name}: {r.status} {r.detail[:300]}')

    def violation(self, key, what, replay_path):
        """key: stable identifier of the failing input class / call site, matched against known_findings.json"""
        for k in self.findings.get('known', []):
            if k.get('property') == self.prop and k.get('key') == key:
                self.known.append((key, what))
                return
        self.violations.append((key, what, replay_path))

    def finish(self, rule, checker_cmd, trusted_base, explanation='', bounds=None):
        wall = time.time() - self.t0
        seen = set(); fl = []
        for fn in self.functions:
            if fn not in seen:
                seen.add(fn); fl.append(fn)
        self.functions = fl
        if bounds is None:
            bounds = sorted({str(q.get('bounds')) for q in self.queries if q.get('bounds')})
        core = [q for q in self.queries if q.get('core')]
        done = [q for q in self.queries if q.get('verdict') in ('success', 'unsat', 'holds')]
        nontrivial = [q for q in done if not q.get('trivial')]
        cov = {
            'evaluations': len(self.queries),
            'distinct_nontrivial': len({q.get('harness') or q.get('name') for q in nontrivial}),
            'rule': rule,
            'samples': (self.samples or [q for q in self.queries])[:12],
            'obligations': len(core),
            'discharged': len([q for q in core if q.get('verdict') in ('success', 'unsat', 'holds')]),
            'checker_cmd': checker_cmd,
            'trusted_base': trusted_base,
            'programs': max(1, len(self.functions)),
            'disagreements_checked': len(self.violations) + len(self.known),
            'explanation': explanation or rule,
            'exhaustive': False,
            'functions_encoded': self.functions,
            'bounds': bounds,
            'queries': self.queries,
            'solver_time_s': round(sum(q.get('solver_s', 0) or 0 for q in self.queries), 2),
            'not_completed': [q.get('harness') or q.get('name') for q in self.queries if q.get('verdict') in ('timeout', 'oom', 'error', 'vacuous', 'unknown')],
            'known_findings_reported': [k for k, _ in self.known],
            'repo_tree_hash': tree_hash(),
        }
        cov.update(self.extra)
        ev = {'property_id': self.prop, 'tier': self.tier, 'seed': self.seed, 'level': self.level, 'coverage': cov,
              'assumptions': self.assumptions, 'wall_s': round(wall, 1), 'violations': len(self.violations)}
        evdir = os.environ.get('VERIF_EVIDENCE_DIR', os.path.join(VERIF, 'evidence'))
        os.makedirs(evdir, exist_ok=True)
        with open(os.path.join(evdir, f'{self.prop}.json'), 'w') as f:
            json.dump(ev, f, indent=1, default=str)
        for key, what in self.known:
            log(f'KNOWN-FINDING: property={self.prop} {what}')
        for key, what, path in self.violations:
            log(f'VIOLATION property={self.prop} replay={path}')
            log(f'  what: {what}')
        if self.violations:
            if self.inconclusive:
                log(f'(also inconclusive: ' + ' | '.join(self.inconclusive)[:1500] + ')')
            return 1
        if self.inconclusive:
            log(f'INCONCLUSIVE property={self.prop}: ' + ' | '.join(self.inconclusive)[:1500])
            return 2
        log(f'OK property={self.prop} tier={self.tier}: {cov["discharged"]}/{cov["obligations"]} core obligations discharged, '
            f'{len(self.queries)} queries, {wall:.0f}s wall')
        return 0


def save_replay(prop, name, payload):
    """write a replay artefact under /verif/replays and return its path"""
    d = os.environ.get('VERIF_REPLAY_DIR', os.path.join(VERIF, 'replays'))
    os.makedirs(d, exist_ok=True)
    blob = json.dumps(payload, sort_keys=True, default=str)
    hid = hashlib.sha256(blob.encode()).hexdigest()[:10]
    p = os.path.join(d, f'{prop}-{name}-{hid}.json')
    open(p, 'w').write(json.dumps(payload, indent=1, default=str))
    return p
