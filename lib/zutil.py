"""z3 check with a retry: an `unknown` (timeout under machine load) is retried once with ten times the budget before it is
reported; verdicts are never guessed."""
import z3


def check(*f, timeout_s=30):
    r = z3.unknown
    for t in (timeout_s, timeout_s * 10):
        s = z3.Solver(); s.set('timeout', int(t * 1000)); s.add(*f)
        r = s.check()
        if r != z3.unknown:
            return r
    return r
