"""MIR dump + parser (engine E2 front end).

The dump is produced from the scratch copy of /repo's current working tree by the
nightly toolchain:  cargo +nightly rustc --lib -- -Zunpretty=mir -C debug-assertions=.. -C overflow-checks=..
"""
import os
import re
import vlib


def dump(scr, checked):
    """returns the MIR text; checked = debug-assertions + overflow-checks on (what a checked build runs),
    otherwise both off (what release users run)"""
    tag = 'checked' if checked else 'release'
    out = os.path.join(scr.root, f'mir-{tag}.txt')
    if os.path.exists(out):
        return open(out).read()
    flag = 'on' if checked else 'off'
    env = dict(vlib.ENV)
    cmd = ['cargo', '+nightly', 'rustc', '--offline', '--lib', '--target-dir', scr.target_dir('mir-' + tag), '--',
           '-Zunpretty=mir', '-C', f'debug-assertions={flag}', '-C', f'overflow-checks={flag}', '--cap-lints', 'allow']
    import subprocess
    p = subprocess.run(cmd, cwd=scr.native, env=env, stdout=subprocess.PIPE, stderr=subprocess.PIPE, text=True, timeout=900)
    if p.returncode != 0 or 'fn ' not in p.stdout:
        raise vlib.BuildError('MIR dump failed:\n' + p.stderr[-3000:])
    open(out, 'w').write(p.stdout)
    return p.stdout


def split_top(s, sep=','):
    out = []; d = 0; cur = ''
    i = 0
    instr = False
    while i < len(s):
        ch = s[i]
        if instr:
            cur += ch
            if ch == '\\':
                cur += s[i + 1]; i += 1
            elif ch == '"':
                instr = False
        elif ch == '"':
            instr = True; cur += ch
        elif ch in '([{<':
            d += 1; cur += ch
        elif ch in ')]}>':
            if ch == '>' and i > 0 and s[i - 1] in '-=':   # '->' / '=>'
                cur += ch
            else:
                d -= 1; cur += ch
        elif ch == sep and d == 0:
            out.append(cur); cur = ''
        else:
            cur += ch
        i += 1
    if cur.strip():
        out.append(cur)
    return out


class Func:
    def __init__(self, name):
        self.name = name
        self.params = []      # [(local, type)]
        self.ret = ''
        self.locals = {}      # local -> type
        self.debug = {}       # place text -> source name
        self.debug_of = {}    # source name -> place text
        self.blocks = {}      # bb -> [statement strings]
        self.cleanup = set()
        self.span = ''

    def block_of_debug(self, name):
        return self.debug_of.get(name)


HEADER = re.compile(r'fn (.+?)\((.*?)\) -> (.+?) \{\n', re.S)


def parse(text):
    """-> {name: Func}; the runtime body is kept (the `// MIR FOR CTFE` duplicate of const fns is skipped)"""
    funcs = {}
    parts = re.split(r'(?m)^(?=fn |// MIR FOR CTFE|const |static |alloc\d+ )', text)
    PROM = re.compile(r'const (.+?::promoted\[\d+\]): (.+?) = \{\n', re.S)
    skip = False
    for p in parts:
        if p.startswith('// MIR FOR CTFE'):
            skip = True
            continue
        first_line = p.split('\n', 1)[0]
        mc = re.match(r'^const ([\w:]+): ([^=]+?) = (const .+);$', first_line)
        if mc and '::promoted[' not in first_line:
            f = Func('@const:' + mc.group(1))
            f.ret = mc.group(2).strip()
            f.locals['_0'] = f.ret
            f.blocks['bb0'] = ['_0 = ' + mc.group(3), 'return']
            funcs.setdefault(f.name, f)
            skip = False
            continue
        mc = re.match(r'^const ([\w:]+): ([^=]+?) = \{$', first_line)
        if mc and '::promoted[' not in first_line:
            f = Func('@const:' + mc.group(1))
            f.ret = mc.group(2).strip()
            for lm in re.finditer(r'(?m)^\s+let (?:mut )?(_\d+): (.+);$', p):
                f.locals[lm.group(1)] = lm.group(2).strip()
            f.locals['_0'] = f.ret
            for bm in re.finditer(r'(?m)^    (bb\d+)( \(cleanup\))?: \{\n(.*?)^    \}', p, re.S):
                f.blocks[bm.group(1)] = [x.strip().rstrip(';') for x in bm.group(3).split('\n') if x.strip() and not x.strip().startswith('//')]
            funcs.setdefault(f.name, f)
            skip = False
            continue
        if p.startswith('const ') and '::promoted[' in p.split('\n', 1)[0]:
            pm = PROM.match(p)
            if pm:
                f = Func(pm.group(1).strip())
                f.ret = pm.group(2).strip()
                for lm in re.finditer(r'(?m)^\s+let (?:mut )?(_\d+): (.+);$', p):
                    f.locals[lm.group(1)] = lm.group(2).strip()
                for bm in re.finditer(r'(?m)^    (bb\d+)( \(cleanup\))?: \{\n(.*?)^    \}', p, re.S):
                    f.blocks[bm.group(1)] = [x.strip().rstrip(';') for x in bm.group(3).split('\n') if x.strip()]
                funcs.setdefault(f.name, f)
            skip = False
            continue
        if not p.startswith('fn '):
            skip = False
            continue
        if skip:
            skip = False
            continue
        m = HEADER.match(p)
        if not m:
            continue
        name = m.group(1).strip()
        f = Func(name)
        for a in split_top(m.group(2)):
            a = a.strip()
            if not a:
                continue
            l, t = a.split(':', 1)
            f.params.append((l.strip(), t.strip()))
        f.ret = m.group(3).strip()
        for lm in re.finditer(r'(?m)^\s+let (?:mut )?(_\d+): (.+);$', p):
            f.locals[lm.group(1)] = lm.group(2).strip()
        for l, t in f.params:
            f.locals[l] = t
        f.locals['_0'] = f.ret
        for dm in re.finditer(r'(?m)^\s+debug (\w+) => (.+);$', p):
            f.debug[dm.group(2).strip()] = dm.group(1)
            f.debug_of.setdefault(dm.group(1), dm.group(2).strip())
        for bm in re.finditer(r'(?m)^    (bb\d+)( \(cleanup\))?: \{\n(.*?)^    \}', p, re.S):
            lines = [x.strip() for x in bm.group(3).split('\n') if x.strip() and not x.strip().startswith('//')]
            f.blocks[bm.group(1)] = [l.rstrip(';') for l in lines]
            if bm.group(2):
                f.cleanup.add(bm.group(1))
        if name not in funcs:
            funcs[name] = f
    canonicalise(funcs)
    return funcs


def find_blocks(f, pattern):
    """blocks containing a statement matching the regex"""
    rx = re.compile(pattern)
    return [bb for bb, ls in f.blocks.items() if any(rx.search(l) for l in ls)]


def successors(f, bb):
    last = f.blocks[bb][-1] if f.blocks[bb] else ''
    return re.findall(r'\b(bb\d+)\b', last.split('->', 1)[1]) if '->' in last else []


def canonicalise(funcs):
    """Parameter names are source identifiers: the obligations address parameters by the names of the pinned tree, so a
    renamed parameter (same position, same arity) is given its canonical name again.  A permutation of the known names is
    left alone (a reordered signature keeps its meaning by name)."""
    import json
    try:
        table = json.load(open(os.path.join(os.path.dirname(os.path.abspath(__file__)), 'canon_params.json')))
    except Exception:  # noqa: BLE001
        return
    for n, f in funcs.items():
        key = re.sub(r'<impl at [^>]*>', '<impl>', n)
        canon = table.get(key)
        if not canon or len(canon) != len(f.params):
            continue
        actual = [f.debug.get(l, l) for l, t in f.params]
        if set(actual) == set(canon):
            continue
        unknown = [a for a in actual if a not in canon]
        missing = [c for c in canon if c not in actual]
        if len(unknown) == 1 and len(missing) == 1 and missing[0] not in f.debug_of:
            # a reordered signature in which one parameter was also renamed: the one unknown name is the one missing name
            for (l, t), a in zip(f.params, actual):
                if a == unknown[0]:
                    f.debug[l] = missing[0]; f.debug_of.pop(a, None); f.debug_of[missing[0]] = l
            continue
        for (l, t), a, c in zip(f.params, actual, canon):
            if a != c and a not in canon and c not in actual and c not in f.debug_of:
                f.debug[l] = c
                f.debug_of.pop(a, None)
                f.debug_of[c] = l
