"""Loop-nest schedule of ntt / inv_ntt on the real MIR (FIPS 204 Algorithms 41 / 42): one step of each loop from an arbitrary
state: m, len, start updates, which table entry becomes zeta, which j range the butterfly loop covers, entry and exit conditions.
Together with the butterfly lemmas (exact output equations) and the table premise this makes the transform the same recurrence
as the standard's, not merely a linear map that agrees on a basis."""
import re
import z3
import e2
import skel


def prove(*f):
    import zutil
    return zutil.check(*f) == z3.unsat


def loop_heads(f):
    succ = {}
    for bb, ls in f.blocks.items():
        term = ls[-1] if ls else ''
        term = re.sub(r'unwind: bb\d+', '', term)
        succ[bb] = re.findall(r'bb\d+', term.split('->', 1)[1]) if '->' in term else []
    heads = set(); state = {}
    stack = [('bb0', iter(succ.get('bb0', [])))]; state['bb0'] = 1
    while stack:
        bb, it = stack[-1]
        nxt = next(it, None)
        if nxt is None:
            state[bb] = 2; stack.pop(); continue
        if state.get(nxt) == 1:
            heads.add(nxt)
        elif nxt not in state:
            state[nxt] = 1; stack.append((nxt, iter(succ.get(nxt, []))))
    return sorted(heads, key=lambda b: int(b[2:]))


def run(funcs, results, tags=('C18',)):
    for fn in ('ntt', 'inv_ntt'):
        fails = []
        def C(label, val):
            if not val:
                fails.append(label)
            return bool(val)
        f = funcs[fn]
        fwd = fn == 'ntt'
        heads = loop_heads(f)
        import lemmas as _LM
        nv = _LM.ntt_vars(f)
        ml = nv['m']; ll = nv['len']; sl = nv['start']; zl = nv['zeta']
        if not all([ml, ll, sl, zl]):
            results.append({'name': f'{fn}: schedule locals', 'tags': list(tags), 'verdict': 'refused', 'detail': str(f.debug_of)}); continue
        kind = {}
        for h in heads:
            txt = ' '.join(f.blocks[h])
            if 'Range<usize> as Iterator>::next' in txt:
                kind['j'] = h
            elif 'IterMut' in txt and 'types::' in txt or ('IterMut' in txt and ('T>' in txt or 'R>' in txt)):
                kind['poly'] = h
            elif 'IterMut' in txt:
                kind['scale'] = h
            elif re.search(r'= copy ' + re.escape(ll) + r'$', txt, re.M) or f'copy {ll}' in txt:
                kind['len'] = h
            elif f'copy {sl}' in txt:
                kind['start'] = h
        need = {'j', 'poly', 'len', 'start'}
        if not need <= set(kind):
            results.append({'name': f'{fn}: loop heads', 'tags': list(tags), 'verdict': 'refused', 'detail': f'{heads} -> {kind}'}); continue
        alloc = None
        for ls in f.blocks.values():
            for l in ls:
                mm = re.search(r'const \{(alloc\d+): &\[i32; 256\]\}', l)
                if mm:
                    alloc = mm.group(1)
        m = z3.BitVec('m', 64); ln = z3.BitVec('len', 64); start = z3.BitVec('start', 64)
        TB = z3.Array('ZT', z3.BitVecSort(64), z3.BitVecSort(32))
        stops = tuple(kind.values())
        # a state in which every local of the function prefix exists: first arrival at the start-loop head
        Ep, pre = skel.extract(funcs, fn, params={'KL': 1}, stop=(kind['start'],))
        pp = [p for p in pre if p.stop == kind['start']]
        if not pp:
            results.append({'name': f'{fn}: prefix state', 'tags': list(tags), 'verdict': 'refused', 'detail': ''}); continue
        st0 = pp[0].st
        # S5: entry of the per-polynomial body: m, len initialised as in the standard; start = 0
        good = C('initial m', Ep.concrete(st0[ml]) == (0 if fwd else 256)) and C('initial len', Ep.concrete(st0[ll]) == (128 if fwd else 1)) and C('initial start', Ep.concrete(st0[sl]) == 0)

        def seg(head, extra=None):
            Ex = e2.Exec(funcs, mode='bv', inline=set(), params={'KL': 1}); Ex.cut_loops = True
            st = dict(st0); st.pop('@stop', None); st.pop('@trail', None); st['@calls'] = ()
            st[ml] = e2.Val(m, 'usize'); st[ll] = e2.Val(ln, 'usize'); st[sl] = e2.Val(start, 'usize')
            st['@arrays'] = {alloc: TB} if alloc else {}
            if extra:
                st.update(extra)
            res, obl = Ex.run(fn, [], init=st, start=head, stop=stops)
            outs = [(pc, s, s.get('@stop')) for pc, s in res if isinstance(s, dict)]
            outs += [(pc, s, 'return') for pc, s in Ex.path_states if isinstance(s, dict) and s.get('@stop') is None]
            return Ex, outs, obl
        lens = z3.Or(*[ln == (1 << k) for k in range(8)])
        inv = [lens, z3.ULE(m, 256), z3.ULE(start, 256), z3.URem(start, 2 * ln) == 0]
        # S1 / S3: from the head of the `while start < 256` loop
        Ex, outs, obl = seg(kind['start'])
        toj = [o for o in outs if o[2] == kind['j']]
        tolen = [o for o in outs if o[2] == kind['len']]
        good &= C('start loop: one continue and one exit path', len(toj) == 1 and len(tolen) == 1)
        if toj:
            pc, s, _ = toj[0]
            m1 = s[ml].t
            good &= C('continue iff start < 256', prove(*inv, pc, z3.UGE(start, 256)))
            if fwd:
                good &= C('m := m + 1', prove(*inv, pc, m1 != m + 1))
                good &= C('zeta := table[m + 1]', prove(*inv, pc, s[zl].t != z3.SignExt(32, z3.Select(TB, m + 1))))
            else:
                good &= C('m := m - 1', prove(*inv, pc, m1 != m - 1))
                good &= C('zeta := -table[m - 1]', prove(*inv, pc, s[zl].t != -z3.Select(TB, m - 1)))
            it = [Ex.call_records[c] for c in s.get('@calls', ()) if 'into_iter' in Ex.call_records[c]['callee']]
            okr = False
            if it:
                rg = it[-1]['argv'][0]
                if isinstance(rg, e2.Opaque) and isinstance(rg.meta, dict):
                    okr = prove(*inv, pc, z3.Or(rg.meta['start'].t != start, rg.meta['end'].t != start + ln))
            good &= C('j ranges over start .. start + len', okr)
        if tolen:
            pc, s, _ = tolen[0]
            good &= C('exit iff start >= 256', prove(*inv, pc, z3.ULT(start, 256)))
            good &= C('len := len / 2' if fwd else 'len := 2 len', prove(*inv, pc, s[ll].t != (z3.LShR(ln, 1) if fwd else ln << 1)))
            good &= C('m unchanged on exit', prove(*inv, pc, s[ml].t != m))
        # S2: the j loop exhausted -> start += 2 len
        Ex, outs, obl = seg(kind['j'])
        back = [o for o in outs if o[2] == kind['start']]
        good &= C('after the j loop: back to the start loop', len(back) >= 1)
        for pc, s, _ in back:
            good &= C('start := start + 2 len', prove(*inv, z3.ULT(start, 256), pc, z3.Or(s[sl].t != start + 2 * ln, s[ml].t != m, s[ll].t != ln)))
        # S4: the len loop
        Ex, outs, obl = seg(kind['len'])
        cont = [o for o in outs if o[2] == kind['start']]
        ex = [o for o in outs if o[2] != kind['start']]
        good &= C('len loop: continue and exit paths', len(cont) == 1 and len(ex) >= 1)
        lens9 = z3.Or(*[ln == (1 << k) for k in range(9)], ln == 0)
        for pc, s, _ in cont:
            good &= C('continue iff len >= 1' if fwd else 'continue iff len < 256', prove(lens9, pc, (ln < 1) if fwd else z3.UGE(ln, 256)))
            good &= C('start := 0', prove(lens9, pc, s[sl].t != 0))
        for pc, s, _ in ex:
            good &= C('exit iff len < 1' if fwd else 'exit iff len >= 256', prove(lens9, pc, z3.UGE(ln, 1) if fwd else z3.ULT(ln, 256)))
            if not fwd:
                good &= C('after the layers the scaling loop follows', s.get('@stop') == kind.get('scale') or any('into_iter' in Ex.call_records[c]['callee'] for c in s.get('@calls', ())))
        results.append({'name': f'{fn}: loop nest is Algorithm {"41" if fwd else "42"} (m, len, start updates; zeta = {"" if fwd else "-"}table[m]; j in start..start+len; entry / exit conditions)',
                        'tags': list(tags), 'verdict': 'holds' if good else 'mismatch', 'detail': ('FAILED: ' + '; '.join(fails)) if fails else f'heads {kind}'})
