"""native trace probe for C14: instruction counts (valgrind --tool=callgrind, collection toggled on `ct_target`) of one kernel
for several secret inputs with identical public inputs; differing counts = differing instruction traces"""
import os
import re
import subprocess
from concurrent.futures import ThreadPoolExecutor
import vlib

KERNELS = ['infinity_norm', 'is_in_range', 'center_mod', 'full_reduce32', 'partial_reduce32', 'mont_reduce', 'decompose', 'make_hint', 'power2round', 'bit_pack',
           'simple_bit_pack', 'hint_bit_pack', 'ntt', 'inv_ntt', 'mat_vec_mul', 'to_mont', 'expand_mask', 'w1_encode', 'pipeline']
Q = 8380417
FILLS = [(0, 0), (0, 1), (0, -1), (0, (Q - 1) // 2), (0, (Q + 1) // 2), (0, Q - 1), (0, -(Q - 1)), (0, 95232), (0, 261888), (0, 4190208), (0, 1 << 17), (2, 5), (2, Q - 1), (1, 1), (1, 2), (1, 3)]
# which probe kernels execute a given crate function (top-level name)
COVER = {'center_mod': ['center_mod', 'infinity_norm', 'pipeline'], 'full_reduce32': ['full_reduce32', 'center_mod', 'pipeline'], 'partial_reduce32': ['partial_reduce32', 'pipeline'],
         'mont_reduce': ['mont_reduce', 'ntt', 'pipeline'], 'partial_reduce64': ['to_mont', 'pipeline'], 'high_bits': ['decompose', 'make_hint', 'pipeline'], 'low_bits': ['decompose', 'pipeline'],
         'is_in_range': ['is_in_range', 'pipeline'], 'bit_unpack': ['expand_mask', 'pipeline'], 'bit_length': ['bit_pack', 'pipeline'],
         'coeff_from_half_byte': ['expand_s_ct', 'keygen_ct'], 'rej_bounded_poly': ['expand_s_ct', 'keygen_ct'], 'expand_s': ['expand_s_ct', 'keygen_ct'],
         'coeff_from_three_bytes': ['expand_a_ct', 'keygen_ct'], 'rej_ntt_poly': ['expand_a_ct', 'keygen_ct'], 'expand_a': ['expand_a_ct', 'keygen_ct'],
         'sample_in_ball': ['sample_in_ball_ct', 'sign_ct'], 'row_norm': ['infinity_norm'], 'key_gen_internal': ['keygen_ct'], 'sign_internal': ['sign_ct']}
MEM_EXCLUDE = ('sign_ct', 'pipeline')      # measured on the pinned tree: the data-access trace of the inlined signing loop varies (code generation of Iterator::max)


def build(scr):
    src = open(os.path.join(vlib.VERIF, 'replay', 'c14_trace.rs')).read()
    oc, out = vlib.native_test(scr, src, 'c14_trace_probe', release=True)
    if oc != 'pass':
        return None, out
    d = os.path.join(scr.target_dir('native'), 'release', 'deps')
    bins = sorted([os.path.join(d, f) for f in os.listdir(d) if f.startswith('fips204-') and '.' not in f and os.access(os.path.join(d, f), os.X_OK)], key=os.path.getmtime)
    return (bins[-1] if bins else None), out


def one(binary, cwd, kernel, mode, val):
    env = dict(os.environ); env.update({'VERIF_CT_KERNEL': kernel, 'VERIF_CT_MODE': str(mode), 'VERIF_CT_VAL': str(val)})
    cmd = ['valgrind', '--tool=callgrind', '--callgrind-out-file=/dev/null', '--toggle-collect=*ct_target*', binary, '--exact', 'verif_replay::c14_trace_probe', '--nocapture', '--test-threads', '1']
    try:
        p = subprocess.run(cmd, cwd=cwd, env=env, stdout=subprocess.PIPE, stderr=subprocess.STDOUT, text=True, timeout=1200)
    except subprocess.TimeoutExpired:
        return None
    m = re.search(r'Collected : (\d+)', p.stdout)
    ok = 'C14-PROBE' in p.stdout
    return int(m.group(1)) if (m and ok) else None


def kernels_for(fn):
    top = fn.split('::{closure')[0]
    if top in KERNELS:
        return [top] + (['pipeline'] if top != 'pipeline' else [])
    return COVER.get(top, ['pipeline'])


def probe(scr, kernels, extra_vals=(), jobs=12):
    """-> ({kernel: {(mode, val): instructions}}, build output); extra_vals: directed coefficient values (from solver models)"""
    binary, out = build(scr)
    if not binary:
        return None, out
    fills = list(FILLS) + [(0, int(v)) for v in extra_vals] + [(2, int(v)) for v in extra_vals]
    tasks = [(k, m, v) for k in kernels for (m, v) in fills]
    res = {k: {} for k in kernels}
    with ThreadPoolExecutor(max_workers=jobs) as ex:
        for (k, m, v), n in zip(tasks, ex.map(lambda t: one(binary, scr.native, *t), tasks)):
            res[k][(m, v)] = n
    return res, out


def differing(res):
    """kernels whose instruction count is not the same for all inputs -> [(kernel, (fill_a, n_a), (fill_b, n_b))]"""
    bad = []
    for k, d in res.items():
        vals = {f: n for f, n in d.items() if n is not None}
        if len(set(vals.values())) > 1:
            items = sorted(vals.items(), key=lambda kv: kv[1])
            bad.append((k, items[0], items[-1]))
    return bad


# --------------------------------------------------------------------------- source-level oracle: coverage region counters
LLVM_BIN = os.path.expanduser('~/.rustup/toolchains/nightly-x86_64-unknown-linux-gnu/lib/rustlib/x86_64-unknown-linux-gnu/bin')


def build_cov(scr):
    src = open(os.path.join(vlib.VERIF, 'replay', 'c14_trace.rs')).read()
    open(os.path.join(scr.replay_dir, 'mod.rs'), 'w').write(src)
    env = dict(vlib.ENV); env['RUSTFLAGS'] = '-C instrument-coverage --cap-lints allow'
    tdir = scr.target_dir('native-cov')
    rc, out, dt = vlib.sh(['cargo', '+nightly', 'test', '--offline', '--lib', '--release', '--target-dir', tdir, '--no-run'], cwd=scr.native, timeout=1200, env=env)
    m = re.search(r'Executable unittests src/lib.rs \((.*?)\)', out)
    if rc != 0 or not m:
        return None, out
    b = m.group(1)
    return (b if os.path.isabs(b) else os.path.join(scr.native, b)), out


def cov_one(binary, cwd, workdir, kernel, mode, val):
    tag = f'{kernel}_{mode}_{val}'.replace('-', 'm')
    raw = os.path.join(workdir, tag + '.profraw'); data = os.path.join(workdir, tag + '.profdata')
    env = dict(os.environ); env.update({'VERIF_CT_KERNEL': kernel, 'VERIF_CT_MODE': str(mode), 'VERIF_CT_VAL': str(val), 'LLVM_PROFILE_FILE': raw})
    try:
        p = subprocess.run([binary, '--exact', 'verif_replay::c14_trace_probe', '--nocapture', '--test-threads', '1'], cwd=cwd, env=env, stdout=subprocess.PIPE, stderr=subprocess.STDOUT, text=True, timeout=600)
        if 'C14-PROBE' not in p.stdout or not os.path.exists(raw):
            return None
        subprocess.run([os.path.join(LLVM_BIN, 'llvm-profdata'), 'merge', '-sparse', raw, '-o', data], check=True, timeout=300)
        q = subprocess.run([os.path.join(LLVM_BIN, 'llvm-cov'), 'export', binary, '-instr-profile=' + data, '--format=text'], stdout=subprocess.PIPE, stderr=subprocess.DEVNULL, text=True, timeout=600)
        import json
        d = json.loads(q.stdout)
        out = {}
        for f in d['data'][0]['functions']:
            n = f['name']
            if '7fips204' not in n or 'verif_replay' in n:
                continue
            out[n] = [r[4] for r in f['regions']]
        return out
    except Exception:  # noqa: BLE001
        return None
    finally:
        for f in (raw, data):
            try:
                os.remove(f)
            except OSError:
                pass


def probe_cov(scr, kernels, extra_vals=(), jobs=12):
    """-> ({kernel: {(mode, val): {function: [region counts]}}}, build output).  Region counters are inserted by rustc before
    optimisation, for the crate's own code only: they are the source-level branch trace the property speaks about."""
    binary, out = build_cov(scr)
    if not binary:
        return None, out
    work = os.path.join(scr.root, 'cov'); os.makedirs(work, exist_ok=True)
    fills = list(FILLS) + [(0, int(v)) for v in extra_vals] + [(2, int(v)) for v in extra_vals]
    tasks = [(k, m, v) for k in kernels for (m, v) in fills]
    res = {k: {} for k in kernels}
    with ThreadPoolExecutor(max_workers=jobs) as ex:
        for (k, m, v), r in zip(tasks, ex.map(lambda t: cov_one(binary, scr.native, work, *t), tasks)):
            res[k][(m, v)] = r
    return res, out


def demangle_hint(name):
    """identifiers of a (legacy or v0) mangled Rust name, in order: <decimal length><identifier>"""
    out = []
    i = 0
    fresh = True                      # position right after an identifier (or at the start): a digit run here is a length
    while i < len(name):
        m = re.match(r'(\d+)_?', name[i:])
        if m and (fresh or not name[i - 1].isdigit()):
            n = int(m.group(1)); j = i + len(m.group(0))
            ident = name[j:j + n]
            if 0 < n <= 40 and len(ident) == n and re.match(r'^[A-Za-z_][A-Za-z_0-9]*$', ident):
                out.append(ident); i = j + n; fresh = True
                continue
        i += 1; fresh = False
    return out


def cov_differing(res):
    """-> [(kernel, function identifiers, fill_a, fill_b)] for crate functions whose region counts differ between two inputs"""
    bad = []
    for k, d in res.items():
        runs = [(f, r) for f, r in d.items() if r is not None]
        if len(runs) < 2:
            continue
        f0, r0 = runs[0]
        seen = set()
        for f1, r1 in runs[1:]:
            for n in r0:
                if n in r1 and r0[n] != r1[n] and n not in seen:
                    seen.add(n)
                    ids = [i for i in demangle_hint(n) if i != 'fips204']
                    bad.append((k, '::'.join(ids[-3:]), f0, f1))
    own = ('helpers', 'ml_dsa', 'ntt', 'high_low', 'conversion', 'encodings', 'hashing')
    bad.sort(key=lambda b: 0 if any(o in b[1].split('::') for o in own) else 1)
    return bad


# --------------------------------------------------------------------------- address oracle: data-access trace between two markers
def mem_one(binary, cwd, kernel, mode, val):
    """sequence of data accesses (kind, address, size) of ct_target under valgrind --tool=lackey, as a digest and a length"""
    import hashlib
    env = dict(os.environ); env.update({'VERIF_CT_KERNEL': kernel, 'VERIF_CT_MODE': str(mode), 'VERIF_CT_VAL': '%012d' % val if val >= 0 else '-%011d' % -val})
    cmd = ['valgrind', '--tool=lackey', '--trace-mem=yes', '--log-file=/dev/stderr', binary, '--exact', 'verif_replay::c14_trace_probe', '--nocapture', '--test-threads', '1']
    try:
        p = subprocess.run(cmd, cwd=cwd, env=env, stdout=subprocess.PIPE, stderr=subprocess.PIPE, text=True, timeout=1800)
    except subprocess.TimeoutExpired:
        return None
    m = re.search(r'C14-PROBE done mark=0x([0-9a-f]+)', p.stdout)
    if not m:
        return None
    mark = m.group(1).rjust(8, '0')
    h = hashlib.sha256(); n = 0; inside = False
    for line in p.stderr.splitlines():
        if len(line) < 4 or line[1] not in 'LSM' or line[0] != ' ':
            continue
        addr = line[3:].split(',')[0].lstrip('0').rjust(8, '0')
        if line[1] == 'S' and addr.endswith(mark.lstrip('0')) and len(addr.lstrip('0')) == len(mark.lstrip('0')):
            if inside:
                break
            inside = True
            continue
        if inside:
            h.update(line.encode()); n += 1
    return (h.hexdigest()[:16], n) if inside else None


def probe_mem(scr, kernels, extra_vals=(), jobs=8):
    binary, out = build(scr)
    if not binary:
        return None, out
    fills = list(FILLS) + [(0, int(v)) for v in extra_vals] + [(2, int(v)) for v in extra_vals]
    tasks = [(k, m, v) for k in kernels for (m, v) in fills]
    res = {k: {} for k in kernels}
    with ThreadPoolExecutor(max_workers=jobs) as ex:
        for (k, m, v), r in zip(tasks, ex.map(lambda t: mem_one(binary, scr.native, *t), tasks)):
            res[k][(m, v)] = r
    return res, out


def mem_differing(res):
    bad = []
    for k, d in res.items():
        vals = {f: r for f, r in d.items() if r is not None}
        if len(set(vals.values())) > 1:
            items = sorted(vals.items(), key=lambda kv: kv[1])
            bad.append((k, items[0], items[-1]))
    return bad
