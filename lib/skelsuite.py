"""Dataflow-skeleton obligations: the call sequence and argument provenance of the big functions of ml_dsa.rs /
lib.rs equal the ones prescribed by FIPS 204 Algorithms 6, 7, 8 (and the key (de)serialisation / derivation
paths), the accept/reject decisions are equivalent to the FIPS predicates (solver), and each per-coefficient
closure computes the FIPS formula (solver, real MIR of the closure)."""
import os
import re
import z3
import e2
import skel
import lemmas as LM
import spec_smt as S
import layout
import samplers
import hintlemmas
from e2run import merged

Q = LM.Q
LENB = '&[((_ extract 7 0) |len(ctx)|)]'
KB = '&[((_ extract 7 0) |param:K|)]'
LB = '&[((_ extract 7 0) |param:L|)]'


class Suite:
    def __init__(self, run, sess, funcs, scr):
        self.run = run; self.sess = sess; self.funcs = funcs; self.scr = scr
        self.results = []       # dict(name, tags, verdict, detail)
        self.scalar_cases = []  # (kernel name, args, lemma) derived from counterexamples of closure lemmas, replayed natively
        src = open(os.path.join(scr.repo, 'src', 'types.rs')).read()
        self.skf = self._fields(src, 'PrivateKey'); self.pkf = self._fields(src, 'PublicKey')

    @staticmethod
    def _fields(src, name):
        m = re.search(r'pub struct ' + name + r'<[^>]*>\s*\{(.*?)\n\}', src, re.S)
        body = re.sub(r'//.*', '', m.group(1)) if m else ''
        names = re.findall(r'(?:pub(?:\(crate\))?\s+)?(\w+)\s*:\s*\[', body)
        return {n: i for i, n in enumerate(names)}

    def ob(self, name, tags, ok, detail=''):
        self.results.append({'name': name, 'tags': tags, 'verdict': 'holds' if ok else 'mismatch', 'detail': detail})

    def refused(self, name, tags, why):
        self.results.append({'name': name, 'tags': tags, 'verdict': 'refused', 'detail': why})

    def implies(self, pc, cond, extra=()):
        import zutil
        return zutil.check(pc, *extra, z3.Not(cond)) == z3.unsat

    def sat(self, *f):
        import zutil
        return zutil.check(*f) == z3.sat

    # ------------------------------------------------------------------ message representative (shared by sign / verify)
    def mu_args(self, E, path, keyref, msgname):
        """which of the three FIPS formattings a path uses, from its path condition -> (class, expected argument string)"""
        nist = E.inputs.get('arg:nist')
        ie = [c for c in path.calls if skel.short_callee(c['callee']).endswith('is_empty')]
        if nist is not None and self.implies(path.pc, nist.t):
            return 'internal', f'&[&{keyref}, &{msgname}]'
        if ie:
            sym = E.inputs.get(ie[0]['result']) or None
            r = ie[0]['result']
            b = z3.Bool(r)
            if self.implies(path.pc, b):
                return 'pure', f'&[&{keyref}, &[0], {LENB}, &ctx, &{msgname}]'
            if self.implies(path.pc, z3.Not(b)):
                return 'prehash', f'&[&{keyref}, &[1], {LENB}, &ctx, &oid, &phm]'
        return None, None

    # ------------------------------------------------------------------ Algorithm 8
    def verify_internal(self):
        fn = 'verify_internal'
        tags = ['C02', 'C01', 'C05', 'C06']
        E, paths = skel.extract(self.funcs, fn, params={'CTEST': False})
        self.run.functions.append('MIR verify_internal (whole body, calls uninterpreted)')
        tr = f'epk.{self.pkf["tr"]}'; rho = f'epk.{self.pkf["rho"]}'; t1 = f'epk.{self.pkf["t1_d2_hat_mont"]}'
        classes = set()
        ok_all = True
        ndec = 0
        for p in paths:
            if p.stop != 'return':
                self.ob('verify_internal: no loop in the body', tags, False, p.stop); continue
            rel = p.rel()
            if len(rel) <= 1:
                # early exits: must return the constant false and be taken only on a decoding failure
                isfalse = p.ret is not None and not isinstance(p.ret, (e2.Opaque, e2.Ref)) and z3.is_false(z3.simplify(p.ret.t))
                self.ob(f'verify_internal: early exit ({len(rel)} calls) returns false', ['C02'], isfalse, p.ret_s)
                continue
            cls, mu = self.mu_args(E, p, tr, 'm')
            if cls is None:
                self.ob('verify_internal: formatting branch identified', tags, False, 'path condition does not fix (nist, oid.is_empty())'); continue
            classes.add(cls)
            exp = [('sig_decode', ['|arg:gamma1|', '|arg:omega|', '&sig'], 'sd'),
                   ('infinity_norm', ['&$sd@Ok.0.1'], None, {'optional': True}),
                   ('h256_xof', [mu], 'h7'),
                   ('XofReader>::read', ['&$h7', None], 'mu', {'argtys': {1: '&mut [u8; 64]'}}),
                   ('sample_in_ball', ['|arg:tau|', '&$sd@Ok.0.0'], 'c'),
                   ('expand_a', [f'&{rho}'], 'A'),
                   ('ntt', ['&$sd@Ok.0.1'], 'zh'),
                   ('mat_vec_mul', ['&$A', '&$zh'], 'az'),
                   ('ntt', ['&[$c]'], 'ch'),
                   ('core::array::from_fn', [f'closure{{az_hat: &$az, c_hat: &$ch[0], t1_d2_hat_mont: &{t1}}}'], 'f1'),
                   ('inv_ntt', ['&$f1'], 'wp'),
                   ('core::array::from_fn', ['closure{gamma2: &|arg:gamma2|, h: &$sd@Ok.0.2@Some.0, wp_approx: &$wp}'], 'w1'),
                   ('w1_encode', ['|arg:gamma2|', '&$w1', None], 'we'),
                   ('h256_xof', ['&[&$mu.out1, &$we.out2]'], 'h12'),
                   ('XofReader>::read', ['&$h12', None], 'cp', {'argtys': {1: '&mut [u8; LAMBDA_DIV4]'}}),
                   ('infinity_norm', ['&$sd@Ok.0.1'], 'nz'),
                   ('PartialEq>::eq', ['&$sd@Ok.0.0', '&$cp.out1'], 'eq', {'optional': True})]
            try:
                env = skel.match_sequence(rel, exp, what=f'verify_internal[{cls}]')
            except skel.Mismatch as e:
                ok_all = False
                self.ob(f'verify_internal[{cls}]: call sequence and data flow equal Algorithm 8', tags, False, str(e))
                continue
            ndec += 1
            # decision
            g1 = z3.BitVec('arg:gamma1', 32); beta = z3.BitVec('arg:beta', 32)
            nz = z3.BitVec(env['nz'], 32)
            left = nz < g1 - beta
            if 'eq' in env:
                want = z3.And(left, z3.Bool(env['eq']))
            else:
                want = z3.BoolVal(False)
            rt = p.ret.t
            good = self.implies(p.pc, rt == want) and ('eq' in env or self.implies(p.pc, z3.Not(left)))
            self.ob(f'verify_internal[{cls}]: returns [[ ||z||inf < gamma1 - beta ]] and [[ c~ == c~\' ]]', ['C02', 'C01', 'C05'], good, f'ret={p.ret_s}')
            # per-coefficient closures
            self.closure_lemma('verify: w\'approx input = Az^ - mont(c^ * t1^)', ['C02', 'C18'], env['rec:f1'], 'submont')
            self.closure_lemma('verify: w\'1 = UseHint(h, w\'approx)', ['C02', 'C01', 'C05'], env['rec:w1'], 'use_hint')
        self.ob('verify_internal: all three message formattings (internal / pure / pre-hash) are present', tags, classes == {'internal', 'pure', 'prehash'}, str(classes))
        if ok_all and ndec:
            self.ob('verify_internal: call sequence and data flow equal Algorithm 8 on every accepting-capable path', tags, True, f'{ndec} paths')

    # ------------------------------------------------------------------ Algorithm 7
    def sign_internal(self):
        fn = 'sign_internal'
        tags = ['C03', 'C01', 'C06']
        f = self.funcs[fn]
        heads = skel.find_loop_head(self.funcs, fn, {'CTEST': False})
        if len(heads) != 1:
            self.refused('sign_internal: rejection loop head', tags, f'loop heads found: {heads}'); return
        head = list(heads)[0]
        E, pre = skel.extract(self.funcs, fn, params={'CTEST': False}, stop=(head,))
        self.run.functions.append(f'MIR sign_internal (prefix up to the rejection loop {head}; one loop iteration from an arbitrary kappa)')
        sk = self.skf
        tr = f'esk.{sk["tr"]}'; rho = f'esk.{sk["rho"]}'; kk = f'esk.{sk["cap_k"]}'
        kl = f.debug_of.get('kappa_ctr')
        if kl is None:      # renamed: the ExpandMask counter is the only user variable of type u16 in Sign_internal
            cands = [l for l, t in f.locals.items() if t == 'u16' and l in f.debug]
            kl = cands[0] if len(cands) == 1 else None
        classes = set()
        for p in [x for x in pre if x.stop == head]:
            cls, mu = self.mu_args(E, p, tr, 'message')
            if cls is None:
                self.ob('sign_internal: formatting branch identified', tags, False, 'path condition does not fix (nist, oid.is_empty())'); continue
            classes.add(cls)
            exp = [('expand_a', [f'&{rho}'], 'A'),
                   ('h256_xof', [mu], 'h6'),
                   ('XofReader>::read', ['&$h6', None], 'mu', {'argtys': {1: '&mut [u8; 64]'}}),
                   ('h256_xof', [f'&[&{kk}, &rnd, &$mu.out1]'], 'h7'),
                   ('XofReader>::read', ['&$h7', None], 'rp', {'argtys': {1: '&mut [u8; 64]'}})]
            try:
                env = skel.match_sequence(p.rel(), exp, what=f'sign_internal prefix[{cls}]')
                k0 = p.st.get(kl)
                kzero = k0 is not None and E.concrete(k0) == 0
                self.ob(f'sign_internal[{cls}]: mu, rho\'\' = H(K || rnd || mu, 64) and kappa = 0 as in Algorithm 7 lines 5-8', tags + ['C12'], kzero, '')
            except skel.Mismatch as e:
                self.ob(f'sign_internal[{cls}]: mu, rho\'\' = H(K || rnd || mu, 64) and kappa = 0 as in Algorithm 7 lines 5-8', tags + ['C12'], False, str(e))
                continue
            # one iteration from this prefix state with a symbolic kappa
            if cls != 'pure':
                continue
            E2, its = self._iteration(fn, head, p, kl)
            self._sign_iteration(E2, its, env, kl, sk)
        self.ob('sign_internal: all three message formattings (internal / pure / pre-hash) are present', tags, classes == {'internal', 'pure', 'prehash'}, str(classes))

    def _iteration(self, fn, head, prefix_path, kl):
        Ex = e2.Exec(self.funcs, mode='bv', inline=set(), params={'CTEST': False})
        Ex.cut_loops = True
        st = dict(prefix_path.st)
        st.pop('@stop', None); st.pop('@trail', None)
        st['@calls'] = ()
        st[kl] = e2.Val(z3.BitVec('kappa', 16), 'u16')
        # carry the prefix' symbols over
        Ex.inputs = dict(prefix_path_inputs(prefix_path))
        res, obl = Ex.run(fn, [], init=st, start=head)
        Ex.obligations = obl
        return Ex, [skel.Path(Ex, pc, s) for pc, s in Ex.path_states]

    def _sign_iteration(self, E, its, env0, kl, sk):
        tags = ['C03', 'C01']
        s1 = f'esk.{sk["s_1_hat_mont"]}'; s2 = f'esk.{sk["s_2_hat_mont"]}'; t0 = f'esk.{sk["t_0_hat_mont"]}'
        # the prefix values are referenced by provenance strings that were fixed in the prefix run
        A = env0['A']; mu = env0['mu.out1']; rp = env0['rp.out1']
        common = [('expand_mask', ['|arg:gamma1|', f'&{rp}', 'kappa'], 'y'),
                  ('ntt', ['&$y'], 'yh'), ('mat_vec_mul', [f'&{A}', '&$yh'], 'ay'), ('inv_ntt', ['&$ay'], 'w'),
                  ('core::array::from_fn', ['closure{gamma2: &|arg:gamma2|, w: &$w}'], 'w1'),
                  ('w1_encode', ['|arg:gamma2|', '&$w1', None], 'we'),
                  ('h256_xof', [f'&[&{mu}, &$we.out2]'], 'h15'),
                  ('XofReader>::read', ['&$h15', None], 'ct', {'argtys': {1: '&mut [u8; LAMBDA_DIV4]'}}),
                  ('sample_in_ball', ['|arg:tau|', '&$ct.out1'], 'c'), ('ntt', ['&[$c]'], 'ch'),
                  ('core::array::from_fn', [f'closure{{c_hat: &$ch[0], s_1_hat_mont: &{s1}}}'], 'f1'), ('inv_ntt', ['&$f1'], 'cs1'),
                  ('core::array::from_fn', [f'closure{{c_hat: &$ch[0], s_2_hat_mont: &{s2}}}'], 'f2'), ('inv_ntt', ['&$f2'], 'cs2'),
                  ('core::array::from_fn', ['closure{y: &$y, c_s_1: &$cs1}'], 'z'),
                  ('core::array::from_fn', ['closure{gamma2: &|arg:gamma2|, w: &$w, c_s_2: &$cs2}'], 'r0'),
                  ('infinity_norm', ['&$z'], 'nz'), ('infinity_norm', ['&$r0'], 'nr')]
        second = [('core::array::from_fn', [f'closure{{c_hat: &$ch[0], t_0_hat_mont: &{t0}}}'], 'f3'), ('inv_ntt', ['&$f3'], 'ct0'),
                  ('core::array::from_fn', ['closure{gamma2: &|arg:gamma2|, c_t_0: &$ct0, w: &$w, c_s_2: &$cs2}'], 'h'),
                  ('infinity_norm', ['&$ct0'], 'nc'),
                  ('Iterator>::sum', [None], 'hw', {'optional': True})]
        final = [('core::array::from_fn', ['closure{z: &$z}'], 'zc'),
                 ('sig_encode', ['|arg:gamma1|', '|arg:omega|', '&$ct.out1', '&$zc', '&$h'], 'sig')]
        g1 = z3.BitVec('arg:gamma1', 32); g2 = z3.BitVec('arg:gamma2', 32); beta = z3.BitVec('arg:beta', 32); omega = z3.BitVec('arg:omega', 32)
        kappa = z3.BitVec('kappa', 16)
        Lp = e2.Val(z3.BitVec('param:L', 64), 'usize')
        kinds = {'reject1': 0, 'reject2': 0, 'accept': 0}
        lemma_done = False
        all_pcs = []
        for p in its:
            rel = p.rel()
            n = len(rel)
            try:
                if p.stop == 'return':
                    env = skel.match_sequence(rel, common + second + final, what='sign_internal iteration (accept path)')
                    kind = 'accept'
                elif any(skel.short_callee(c['callee']) == 'inv_ntt' and c is rel[-1] for c in rel[:0]):
                    kind = None
                elif n == len(common):
                    env = skel.match_sequence(rel, common, what='sign_internal iteration (first rejection)')
                    kind = 'reject1'
                else:
                    env = skel.match_sequence(rel, common + second, what='sign_internal iteration (second rejection)')
                    kind = 'reject2'
            except skel.Mismatch as e:
                self.ob('sign_internal: one loop iteration follows Algorithm 7 lines 11-28', tags, False, str(e))
                continue
            kinds[kind] += 1
            nz = z3.BitVec(env['nz'], 32); nr = z3.BitVec(env['nr'], 32)
            r1 = z3.Or(nz >= g1 - beta, nr >= g2 - beta)
            if kind == 'reject1':
                good = self.implies(p.pc, r1)
            else:
                nc = z3.BitVec(env['nc'], 32)
                r2 = (nc >= g2) if 'hw' not in env else z3.Or(nc >= g2, z3.BitVec(env['hw'], 32) > omega)
                if kind == 'reject2':
                    good = self.implies(p.pc, z3.And(z3.Not(r1), r2))
                else:
                    good = self.implies(p.pc, z3.And(z3.Not(r1), z3.Not(r2))) and 'hw' in env
            self.ob(f'sign_internal: path `{kind}` is taken only under the FIPS 204 condition (lines 23 / 28)', tags, good, f'calls={n}')
            if kind != 'accept':
                k1 = p.st.get(kl)
                okk = k1 is not None and Lp is not None and self.implies(p.pc, k1.t == kappa + z3.Extract(15, 0, Lp.t))
                self.ob(f'sign_internal: after `{kind}` the ExpandMask counter is kappa + l (line 31)', ['C03'], okk, e2.Exec.show(E, k1, p.st) if k1 is not None else 'kappa not found')
            else:
                self.ob('sign_internal: accepted iteration returns sigEncode(c~, z mod+- q, h) (line 33)', tags, p.ret_s == env['sig'], p.ret_s)
                if not lemma_done:
                    lemma_done = True
                    self.closure_lemma('sign: w1 = HighBits(w)', tags, env['rec:w1'], 'high_bits')
                    self.closure_lemma('sign: c^ * s1^ (Montgomery product)', ['C03', 'C18'], env['rec:f1'], 'mulmont')
                    self.closure_lemma('sign: c^ * s2^ (Montgomery product)', ['C03', 'C18'], env['rec:f2'], 'mulmont')
                    self.closure_lemma('sign: c^ * t0^ (Montgomery product)', ['C03', 'C18'], env['rec:f3'], 'mulmont')
                    self.closure_lemma('sign: z = y + c*s1 (mod q)', tags, env['rec:z'], 'z')
                    self.closure_lemma('sign: r0 = LowBits(w - c*s2)', tags, env['rec:r0'], 'r0')
                    self.closure_lemma('sign: h = MakeHint(-c*t0, w - c*s2 + c*t0)', tags, env['rec:h'], 'hint')
                    self.closure_lemma('sign: z mod+- q', tags, env['rec:zc'], 'center')
            all_pcs.append(p.pc)
        self.ob('sign_internal: the iteration has first-rejection, second-rejection and accept paths', tags, all(v > 0 for v in kinds.values()), str(kinds))
        # exhaustiveness: absent a panic, one of the classified paths is taken
        if all_pcs:
            obl = [o['cond'] for o in getattr(E, 'obligations', [])]
            covered = not self.sat(z3.Not(z3.Or(*all_pcs)), z3.Not(z3.Or(*obl)) if obl else z3.BoolVal(True))
            self.ob('sign_internal: the classified paths are exhaustive (no other way through the iteration)', tags, covered, f'{len(all_pcs)} paths, {len(obl)} panic obligations')

    # ------------------------------------------------------------------ Algorithm 6
    def key_gen_internal(self):
        fn = 'key_gen_internal'
        tags = ['C04', 'C11', 'C12']
        E, paths = skel.extract(self.funcs, fn, params={'CTEST': False})
        self.run.functions.append('MIR key_gen_internal (whole body)')
        if len(paths) != 1:
            self.ob('key_gen_internal: single path', tags, False, f'{len(paths)} paths'); return
        p = paths[0]
        exp = [('h256_xof', [f'&[&xi, {KB}, {LB}]'], 'h2'),
               ('XofReader>::read', ['&$h2', None], 'r1', {'argtys': {1: '&mut [u8; 32]'}}),
               ('XofReader>::read', ['&$r1.out0', None], 'r2', {'argtys': {1: '&mut [u8; 64]'}}),
               ('XofReader>::read', ['&$r2.out0', None], 'r3', {'argtys': {1: '&mut [u8; 32]'}}),
               ('expand_s', ['|arg:eta|', '&$r2.out1'], 's'),
               ('expand_a', ['&$r1.out1'], 'A'),
               ('ntt', ['&$s.0'], 's1h'), ('mat_vec_mul', ['&$A', '&$s1h'], 'as1'), ('inv_ntt', ['&$as1'], 'iv'),
               ('add_vector_ntt', ['&$iv', '&$s.1'], 'tn'),
               ('core::array::from_fn', ['closure{t_not_reduced: &$tn}'], 't'),
               ('power2round', ['&$t'], 'p2'),
               ('pk_encode', ['&$r1.out1', '&$p2.0'], 'pk'),
               ('h256_xof', ['&[&$pk]'], 'h8'),
               ('XofReader>::read', ['&$h8', None], 'r4', {'argtys': {1: '&mut [u8; 64]'}}),
               ('ntt', ['&$p2.0'], 't1h'), ('to_mont', ['&$t1h'], 't1m'),
               ('core::array::from_fn', ['closure{t1_hat_mont: &$t1m}'], 'sh'), ('to_mont', ['&$sh'], 't1d2'),
               ('ntt', ['&$s.0'], 'a1'), ('to_mont', ['&$a1'], 's1m'),
               ('ntt', ['&$s.1'], 'a2'), ('to_mont', ['&$a2'], 's2m'),
               ('ntt', ['&$p2.1'], 'a3'), ('to_mont', ['&$a3'], 't0m')]
        try:
            env = skel.match_sequence(p.rel(), exp, what='key_gen_internal')
        except skel.Mismatch as e:
            self.ob('key_gen_internal: call sequence and data flow equal Algorithm 6', tags, False, str(e)); return
        self.ob('key_gen_internal: call sequence and data flow equal Algorithm 6', tags, True, '')
        want = ('[struct:types::PublicKey{rho: %s, tr: %s, t1_d2_hat_mont: %s}, struct:types::PrivateKey{rho: %s, cap_k: %s, tr: %s, s_1_hat_mont: %s, s_2_hat_mont: %s, t_0_hat_mont: %s}]'
                % (env['r1.out1'], env['r4.out1'], env['t1d2'], env['r1.out1'], env['r3.out1'], env['r4.out1'], env['s1m'], env['s2m'], env['t0m']))
        self.ob('key_gen_internal: key structs hold (rho, tr, NTT(t1*2^d)) and (rho, K, tr, NTT(s1), NTT(s2), NTT(t0)) in Montgomery form', tags, p.ret_s == want, p.ret_s)
        self.closure_lemma('keygen: t = (A*s1 + s2) mod q', ['C04', 'C11'], env['rec:t'], 'full_reduce')
        self.closure_lemma('keygen: t1 * 2^d in Montgomery form', ['C04', 'C09', 'C11'], env['rec:sh'], 'shiftd')
        self.kg_env = env

    # ------------------------------------------------------------------ public key derivation
    def private_to_public_key(self):
        fn = 'private_to_public_key'
        tags = ['C11', 'C01']
        E, paths = skel.extract(self.funcs, fn)
        self.run.functions.append('MIR private_to_public_key (whole body)')
        sk = self.skf
        if len(paths) != 1:
            self.ob('private_to_public_key: single path', tags, False, f'{len(paths)} paths'); return
        p = paths[0]
        exp = [('expand_a', [f'&sk.{sk["rho"]}'], 'A'),
               ('core::array::from_fn', [f'closure{{s_1_hat_mont: &sk.{sk["s_1_hat_mont"]}}}'], 's1h'),
               ('core::array::from_fn', [f'closure{{s_2_hat_mont: &sk.{sk["s_2_hat_mont"]}}}'], 'f2'), ('inv_ntt', ['&$f2'], 's2raw'),
               ('core::array::from_fn', ['closure{s_2: &$s2raw}'], 's2'),
               ('core::array::from_fn', [f'closure{{t_0_hat_mont: &sk.{sk["t_0_hat_mont"]}}}'], 'f3', {'optional': True}), ('inv_ntt', ['&$f3'], 't0raw', {'optional': True}),
               ('core::array::from_fn', ['closure{t_0: &$t0raw}'], 'skt0', {'optional': True}),
               ('mat_vec_mul', ['&$A', '&$s1h'], 'as1'), ('inv_ntt', ['&$as1'], 'iv'), ('add_vector_ntt', ['&$iv', '&$s2'], 'tn'),
               ('core::array::from_fn', ['closure{t_not_reduced: &$tn}'], 't'),
               ('power2round', ['&$t'], 'p2'),
               ('PartialEq>::eq', [None, None], 'dbg', {'optional': True}),
               ('ntt', ['&$p2.0'], 't1h'), ('to_mont', ['&$t1h'], 't1m'),
               ('core::array::from_fn', ['closure{t1_hat_mont: &$t1m}'], 'sh'), ('to_mont', ['&$sh'], 't1d2')]
        try:
            env = skel.match_sequence(p.rel(), exp, what='private_to_public_key')
        except skel.Mismatch as e:
            self.ob('private_to_public_key: recomputes t1 as KeyGen does (A*s1 + s2, Power2Round, NTT(t1*2^d) in Montgomery form)', tags, False, str(e)); return
        self.ob('private_to_public_key: recomputes t1 as KeyGen does (A*s1 + s2, Power2Round, NTT(t1*2^d) in Montgomery form)', tags, True, '')
        want = 'struct:types::PublicKey{rho: mem:sk.%d, tr: mem:sk.%d, t1_d2_hat_mont: %s}' % (sk['rho'], sk['tr'], env['t1d2'])
        self.ob('private_to_public_key: derived key = (rho of sk, tr of sk, recomputed t1 precompute)', tags, p.ret_s == want, p.ret_s)
        self.closure_lemma('derive: s1^ = mont_reduce(s1^_mont) (leave Montgomery form)', tags + ['C18'], env['rec:s1h'], 'unmont')
        self.closure_lemma('derive: s2^ out of Montgomery form', tags, env['rec:f2'], 'unmont')
        self.closure_lemma('derive: s2 re-centred', tags, env['rec:s2'], 'recentre')
        self.closure_lemma('derive: t = (A*s1 + s2) mod q', tags, env['rec:t'], 'full_reduce_wide')
        self.closure_lemma('derive: t1 * 2^d in Montgomery form', tags, env['rec:sh'], 'shiftd')

    # ------------------------------------------------------------------ key (de)serialisation
    def expand_keys(self):
        tags = ['C09', 'C01']
        E, paths = skel.extract(self.funcs, 'expand_private')
        self.run.functions.append('MIR expand_private / expand_public (whole bodies)')
        good = [p for p in paths if p.stop == 'return' and len(p.rel()) > 1]
        exp = [('sk_decode', ['|arg:eta|', '&sk'], 'd'),
               ('ntt', ['&$b@Continue.0.3'], 'a1'), ('to_mont', ['&$a1'], 's1m'),
               ('ntt', ['&$b@Continue.0.4'], 'a2'), ('to_mont', ['&$a2'], 's2m'),
               ('ntt', ['&$b@Continue.0.5'], 'a3'), ('to_mont', ['&$a3'], 't0m')]
        try:
            env = skel.match_sequence(good[0].rel(), exp, what='expand_private')
            b = env['b']
            want = f'variant0(struct:types::PrivateKey{{rho: mem:*{b}@Continue.0.0, cap_k: mem:*{b}@Continue.0.1, tr: mem:*{b}@Continue.0.2, s_1_hat_mont: {env["s1m"]}, s_2_hat_mont: {env["s2m"]}, t_0_hat_mont: {env["t0m"]}}})'
            br = [c for c in good[0].calls if c['result'] == b]
            okb = bool(br) and br[0]['args'] == [env['d']]
            self.ob('expand_private: (rho, K, tr, NTT(s1), NTT(s2), NTT(t0)) in Montgomery form from skDecode(sk); failure of skDecode is returned', tags + ['C10'], good[0].ret_s == want and okb and len(paths) == 2, good[0].ret_s)
        except (skel.Mismatch, IndexError) as e:
            self.ob('expand_private: (rho, K, tr, NTT(s1), NTT(s2), NTT(t0)) in Montgomery form from skDecode(sk)', tags + ['C10'], False, str(e))
        E, paths = skel.extract(self.funcs, 'expand_public')
        good = [p for p in paths if p.stop == 'return' and len(p.rel()) > 1]
        exp = [('pk_decode', ['&pk'], 'd'),
               ('h256_xof', ['&[&pk]'], 'h6'), ('XofReader>::read', ['&$h6', None], 'tr', {'argtys': {1: '&mut [u8; 64]'}}),
               ('ntt', ['&$b@Continue.0.1'], 't1h'), ('to_mont', ['&$t1h'], 't1m'),
               ('core::array::from_fn', ['closure{t1_hat_mont: &$t1m}'], 'sh'), ('to_mont', ['&$sh'], 't1d2')]
        try:
            env = skel.match_sequence(good[0].rel(), exp, what='expand_public')
            b = env['b']
            want = f'variant0(struct:types::PublicKey{{rho: mem:*{b}@Continue.0.0, tr: {env["tr.out1"]}, t1_d2_hat_mont: {env["t1d2"]}}})'
            self.ob('expand_public: (rho, tr = H(pk, 64), NTT(t1*2^d)) in Montgomery form from pkDecode(pk)', tags + ['C11', 'C05'], good[0].ret_s == want, good[0].ret_s)
            self.closure_lemma('expand_public: t1 * 2^d in Montgomery form', tags, env['rec:sh'], 'shiftd')
        except (skel.Mismatch, IndexError) as e:
            self.ob('expand_public: (rho, tr = H(pk, 64), NTT(t1*2^d)) in Montgomery form from pkDecode(pk)', tags + ['C11', 'C05'], False, str(e))

    def into_bytes(self):
        tags = ['C09', 'C04']
        sk = self.skf; pk = self.pkf
        names = [n for n in self.funcs if n.endswith('::into_bytes') and n.startswith('ml_dsa_')]
        sks = [n for n in names if self.funcs[n].params and 'PrivateKey' in self.funcs[n].params[0][1]]
        pks = [n for n in names if self.funcs[n].params and 'PublicKey' in self.funcs[n].params[0][1]]
        self.run.functions.append(f'MIR SerDes::into_bytes of {len(sks)} private / {len(pks)} public key types')
        self.ob('into_bytes: one implementation per key type and parameter set', tags, len(sks) == 3 and len(pks) == 3, str(names))
        for n in sks:
            E, paths = skel.extract(self.funcs, n)
            if len(paths) != 1:
                self.ob(f'{n}: single path', tags, False, ''); continue
            exp = []
            for fld, nm in ((sk['s_1_hat_mont'], 's1'), (sk['s_2_hat_mont'], 's2'), (sk['t_0_hat_mont'], 't0')):
                exp += [('core::array::from_fn', [None], f'{nm}a'), ('inv_ntt', [f'&${nm}a'], f'{nm}b'), ('core::array::from_fn', [None], f'{nm}c')]
            exp += [('sk_encode', [None, f'&self.{sk["rho"]}', f'&self.{sk["cap_k"]}', f'&self.{sk["tr"]}', '&$s1c', '&$s2c', '&$t0c'], 'out')]
            try:
                env = skel.match_sequence(paths[0].rel(), exp, what=n)
                okc = True
                for fld, nm in ((sk['s_1_hat_mont'], 's1'), (sk['s_2_hat_mont'], 's2'), (sk['t_0_hat_mont'], 't0')):
                    a = skel.norm(env[f'rec:{nm}a']['args'][0]); c = skel.norm(env[f'rec:{nm}c']['args'][0])
                    okc &= a.endswith(f': &self.{fld}}}') and c.endswith(f': &{env[nm + "b"]}}}')
                self.ob(f'{n.split("::")[0]} PrivateKey::into_bytes = skEncode(rho, K, tr, centre(invNTT(unmont(s1^))), ..s2.., ..t0..)', tags, okc and paths[0].ret_s == env['out'], paths[0].ret_s)
                if n == sks[0]:
                    self.closure_lemma('sk into_bytes: leave Montgomery form', tags, env['rec:s1a'], 'unmont')
                    self.closure_lemma('sk into_bytes: re-centre', tags, env['rec:s1c'], 'recentre')
            except skel.Mismatch as e:
                self.ob(f'{n.split("::")[0]} PrivateKey::into_bytes = skEncode(...)', tags, False, str(e))
        for n in pks:
            E, paths = skel.extract(self.funcs, n)
            if len(paths) != 1:
                self.ob(f'{n}: single path', tags, False, ''); continue
            exp = [('core::array::from_fn', [f'closure{{t1_d2_hat_mont: &self.{pk["t1_d2_hat_mont"]}}}'], 'a'), ('inv_ntt', ['&$a'], 'b'),
                   ('core::array::from_fn', ['closure{t1_d2: &$b}'], 'c'), ('pk_encode', [f'&self.{pk["rho"]}', '&$c'], 'out')]
            try:
                env = skel.match_sequence(paths[0].rel(), exp, what=n)
                self.ob(f'{n.split("::")[0]} PublicKey::into_bytes = pkEncode(rho, invNTT(unmont(t1^*2^d)) >> d)', tags, paths[0].ret_s == env['out'], paths[0].ret_s)
                if n == pks[0]:
                    self.closure_lemma('pk into_bytes: leave Montgomery form', tags, env['rec:a'], 'unmont')
                    self.closure_lemma('pk into_bytes: t1 = (t1 * 2^d mod q) >> d', tags, env['rec:c'], 'shr_d')
            except skel.Mismatch as e:
                self.ob(f'{n.split("::")[0]} PublicKey::into_bytes = pkEncode(...)', tags, False, str(e))

    # ------------------------------------------------------------------ per-coefficient closure lemmas
    def closure_lemma(self, title, tags, rec, kind):
        inner = skel.closure_of(self.funcs, rec)
        if not inner or inner not in self.funcs:
            self.refused(title, tags, f'closure body not found for {rec["args"]}'); return
        try:
            self._closure_lemma(title, tags, inner, kind, caps=rec.get('caps'))
        except e2.Refuse as e:
            self.refused(title, tags, f'{inner}: {e}')

    def _closure_lemma(self, title, tags, inner, kind, caps=None):
        sess = self.sess
        def byrole(ins):     # captured variables by role (the name the FIPS pattern uses), not by source identifier
            mapped = {act for act in (caps or {}).values()}
            return {**{k: v for k, v in ins.items() if k not in mapped}, **{role: ins[act] for role, act in (caps or {}).items() if act in ins}}
        self.run.functions.append('MIR ' + inner)
        G = (S.G44, S.G65)
        def bvrun(g2=None):
            E = e2.Exec(self.funcs, mode='bv', params={'K': 8, 'L': 7, 'KL': 8, 'CTEST': False})
            n = e2.Val(z3.BitVec('n', 64), 'usize')
            res, obl = E.run(inner, [None, n])
            out = merged(E, res)
            pre = [z3.ULT(n.t, 256)] + [v.t == 0 for k, v in E.inputs.items() if isinstance(v, e2.Val) and not isinstance(v, (e2.Ref, e2.Opaque)) and v.ty == 'usize' and not k.startswith('param:')]
            ins = {}
            for k, v in E.inputs.items():
                if isinstance(v, (e2.Ref, e2.Opaque)) or v.ty != 'i32':
                    continue
                m = re.match(r'^(\w+)[\.\[]', k)
                ins[m.group(1) if m else k] = v.t
            ins = byrole(ins)
            if g2 is not None and 'gamma2' in ins:
                pre.append(ins['gamma2'] == g2)
            return E, out, obl, pre, ins
        def intrun():
            E = e2.Exec(self.funcs, mode='int', params={'K': 8, 'L': 7, 'KL': 8, 'CTEST': False}, summaries={'mont_reduce': LM.mont_summary}); E.mont_calls = []
            n = e2.Val(z3.Int('n'), 'usize')
            res, obl = E.run(inner, [None, n])
            out = merged(E, res)
            pre = [n.t >= 0, n.t < 256] + [v.t == 0 for k, v in E.inputs.items() if isinstance(v, e2.Val) and not isinstance(v, (e2.Ref, e2.Opaque)) and v.ty == 'usize' and not k.startswith('param:')]
            ins = {}
            for k, v in E.inputs.items():
                if isinstance(v, (e2.Ref, e2.Opaque)) or v.ty != 'i32':
                    continue
                m = re.match(r'^(\w+)[\.\[]', k)
                ins[m.group(1) if m else k] = v.t
            return E, out, obl, pre + list(E.summary_facts), byrole(ins)
        def rec(ok):
            self.ob(title + f' [{inner}]', tags, ok, kind)
        nm = f'{title} [{inner}]'
        if kind == 'hint':
            # argument shapes of the real call make_hint(gamma2, Q - ct0, partial_reduce32(w - cs2 + ct0)); the semantic lemma about
            # this shape (== MakeHint(-ct0, w - cs2 + ct0), and its duality with UseHint) is decided on the real functions by E1 (c01_a2_*)
            E = e2.Exec(self.funcs, mode='bv', inline=set(), params={'K': 8, 'L': 7, 'KL': 8, 'CTEST': False})
            n = e2.Val(z3.BitVec('n', 64), 'usize')
            res, obl = E.run(inner, [None, n])
            ins = {}
            for k, v in E.inputs.items():
                if isinstance(v, (e2.Ref, e2.Opaque)) or v.ty != 'i32':
                    continue
                m = re.match(r'^(\w+)[\.\[]', k)
                ins[m.group(1) if m else k] = v.t
            pre = [z3.ULT(n.t, 256)] + [v.t == 0 for k, v in E.inputs.items() if isinstance(v, e2.Val) and not isinstance(v, (e2.Ref, e2.Opaque)) and v.ty == 'usize' and not k.startswith('param:')]
            ins = byrole(ins)
            w = ins['w']; c = ins['c_s_2']; t = ins['c_t_0']
            p = z3.And(*pre, w >= 0, w < Q, c >= 0, c < Q, t >= 0, t < Q)
            recs = list(E.call_records.values())
            pr = [r for r in recs if r['callee'] == 'partial_reduce32']
            mh = [r for r in recs if r['callee'] == 'make_hint']
            cv = [r for r in recs if 'From<bool>' in r['callee'] or r['callee'].endswith('::from')]
            ok = len(pr) == 1 and len(mh) == 1 and len(res) == 1
            if ok:
                ok &= sess.discharge_obligations(nm, obl, p)
                f = z3.Or(pr[0]['argv'][0].t != w - c + t, mh[0]['argv'][1].t != Q - t, mh[0]['argv'][2].t != z3.BitVec(pr[0]['result'], 32), mh[0]['argv'][0].t != ins['gamma2'])
                ok &= sess.discharge(nm + ': call shape make_hint(gamma2, q - ct0, partial_reduce32(w - cs2 + ct0)) and result = hint bit', f, pre=p, fn=inner) == 'unsat'
                out = merged(E, res)
                outs = E.show(out)
                ok &= mh[0]['result'] in outs
            rec(ok); return
        if kind in ('high_bits', 'use_hint', 'r0'):
            ok = True
            for g2 in G:
                E, out, obl, pre, ins = bvrun(g2)
                sx = S.sx
                if kind == 'high_bits':
                    w = ins['w']; p = z3.And(*pre, w >= 0, w < Q)
                    f = sx(out.t) != S.high_bits(g2, sx(w))
                elif kind == 'use_hint':
                    w = ins['wp_approx']; h = ins['h']; p = z3.And(*pre, w >= 0, w < Q, z3.Or(h == 0, h == 1))
                    f = sx(out.t) != S.use_hint(g2, sx(h), sx(w))
                elif kind == 'r0':
                    w = ins['w']; c = ins['c_s_2']; p = z3.And(*pre, w >= 0, w < Q, c >= 0, c < Q)
                    f = sx(out.t) != S.low_bits(g2, sx(w) - sx(c))
                else:
                    w = ins['w']; c = ins['c_s_2']; t = ins['c_t_0']; p = z3.And(*pre, w >= 0, w < Q, c >= 0, c < Q, t >= 0, t < Q)
                    want = S.make_hint(g2, -sx(t), sx(w) - sx(c) + sx(t))
                    f = (out.t == 1) != want
                    f = z3.Or(f, z3.And(out.t != 0, out.t != 1))
                def cb(name, vals, rec_, kind=kind, g2=g2):
                    g = lambda k: next((v for kk, v in vals.items() if kk.startswith('in:' + k)), 0)
                    if kind == 'use_hint':
                        self.scalar_cases.append(('use_hint', [g2, g('h'), g('wp_approx')], name))
                    elif kind == 'high_bits':
                        self.scalar_cases.append(('high_bits', [g2, g('w')], name))
                    elif kind == 'r0':
                        self.scalar_cases.append(('low_bits', [g2, (g('w') - g('c_s_2')) % Q], name))
                ok &= sess.discharge_obligations(nm + f' gamma2={g2}', obl, p, on_sat=cb)
                ok &= sess.discharge(nm + f' gamma2={g2}: equals the FIPS 204 formula for every coefficient value', f, pre=p, fn=inner, on_sat=cb) == 'unsat'
            rec(ok); return
        if kind in ('mulmont', 'submont', 'unmont', 'shiftd'):
            E, out, obl, pre, ins = intrun()
            if len(E.mont_calls) != 1:
                raise e2.Refuse(f'{len(E.mont_calls)} mont_reduce calls')
            arg, r = E.mont_calls[0]
            rng = []
            for k, t in ins.items():
                b = LM.ntt_out_bound(1) if k == 'c_hat' else ((1 << 31) - 1 if k == 'az_hat' else 2 * Q - 1)
                if k == 'az_hat':
                    b = 8 * (Q // 2 + 40000)
                rng += [t >= -b, t <= b]
            p = z3.And(*pre, *rng)
            if kind == 'mulmont':
                other = [t for k, t in ins.items() if k != 'c_hat'][0]
                f = z3.Or(arg != ins['c_hat'] * other, out.t != r)
            elif kind == 'submont':
                f = z3.Or(arg != ins['c_hat'] * ins['t1_d2_hat_mont'], out.t != ins['az_hat'] - r)
            elif kind == 'unmont':
                x = list(ins.values())[0]
                f = z3.Or(arg != x, out.t != r)
            else:
                x = list(ins.values())[0]
                f = z3.Or(arg != x * (1 << 13), out.t != r)
            ok = sess.discharge_obligations(nm, obl, p, enc='int')
            ok &= sess.discharge(nm + ': exact operands of the Montgomery reduction', f, pre=p, enc='int', fn=inner) == 'unsat'
            rec(ok); return
        if kind in ('z', 'center', 'full_reduce', 'full_reduce_wide', 'recentre', 'shr_d'):
            E, out, obl, pre, ins = bvrun()
            sx = S.sx
            o = sx(out.t)
            if kind == 'z':
                y = ins['y']; c = ins['c_s_1']
                p = z3.And(*pre, y > -(1 << 19), y <= (1 << 19), c >= 0, c < Q)
                f = z3.Or(z3.SRem(o - sx(y) - sx(c), S.bv(Q)) != 0, o <= -Q, o >= Q)
            elif kind == 'center':
                z = ins['z']; p = z3.And(*pre, z > -Q, z < Q)
                f = o != S.mod_pm(sx(z), Q)
            elif kind in ('full_reduce', 'full_reduce_wide'):
                x = list(ins.values())[0]
                lo, hi = (-(Q // 2) - 8, Q + Q // 2 + 8)
                p = z3.And(*pre, x >= lo, x <= hi)
                f = o != S.emod(sx(x), Q)
            elif kind == 'recentre':
                x = list(ins.values())[0]; p = z3.And(*pre, x >= 0, x < Q)
                f = o != S.mod_pm(sx(x), Q)
            else:
                x = list(ins.values())[0]; t1 = z3.BitVec('t1', 64)
                p = z3.And(*pre, t1 >= 0, t1 <= 1023, sx(x) == S.emod(t1 * 8192, Q))
                f = o != t1
            def cb2(name, vals, rec_, kind=kind):
                g = lambda k: next((v for kk, v in vals.items() if kk.startswith('in:' + k)), 0)
                if kind == 'center':
                    self.scalar_cases.append(('center_mod', [g('z')], name))
            ok = sess.discharge_obligations(nm, obl, p, on_sat=cb2)
            ok &= sess.discharge(nm + ': equals the FIPS 204 formula for every coefficient value', f, pre=p, fn=inner, on_sat=cb2) == 'unsat'
            rec(ok); return
        raise e2.Refuse('unknown lemma kind ' + kind)

    # ------------------------------------------------------------------ small helper kernels used by the decisions
    def helper_kernels(self):
        sess = self.sess
        sx = S.sx
        # infinity_norm: flat_map over rows, map |x mod+- q|, max
        E, paths = skel.extract(self.funcs, 'infinity_norm')
        names = [skel.short_callee(c['callee']) for p in paths for c in p.calls]
        ok = len(paths) == 1 and any(n.endswith('Iterator>::max') for n in names) and any(n.endswith('flat_map') for n in names) and any(n.endswith('>::map') for n in names)
        self.ob('infinity_norm: max over all coefficients of all rows of the per-coefficient map', ['C02', 'C03', 'C01'], ok, str(names)[:200])
        nm = 'infinity_norm::{closure#1}'
        if nm in self.funcs:
            Eb = e2.Exec(self.funcs, mode='bv')
            x = e2.Val(z3.BitVec('x', 32), 'i32')
            res, obl = Eb.run(nm, [None, x])
            out = merged(Eb, res)
            pre = z3.And(x.t > -2 * Q, x.t < 2 * Q)
            m = S.mod_pm(sx(x.t), Q)
            ok = sess.discharge_obligations('infinity_norm element map', obl, pre)
            ok &= sess.discharge('infinity_norm element map: |x mod+- q| for every |x| < 2q', sx(out.t) != z3.If(m < 0, -m, m), pre=pre, fn=nm) == 'unsat'
            self.ob('infinity_norm: element map is |x mod+- q| [' + nm + ']', ['C02', 'C03', 'C01'], ok, '')
            self.run.functions.append('MIR ' + nm)
        else:
            self.refused('infinity_norm element map', ['C02', 'C03'], 'closure not found')
        # add_vector_ntt: coefficient-wise sum
        nm = 'add_vector_ntt::{closure#0}::{closure#0}'
        if nm in self.funcs:
            Eb = e2.Exec(self.funcs, mode='bv', params={'K': 8})
            n = e2.Val(z3.BitVec('n', 64), 'usize')
            res, obl = Eb.run(nm, [None, n])
            out = merged(Eb, res)
            ins = {}
            for k, v in Eb.inputs.items():
                if isinstance(v, (e2.Ref, e2.Opaque)) or v.ty != 'i32':
                    continue
                mm = re.match(r'^(\w+)[\.\[]', k)
                ins[mm.group(1) if mm else k] = v.t
            pre = [z3.ULT(n.t, 256)] + [v.t == 0 for k, v in Eb.inputs.items() if isinstance(v, e2.Val) and not isinstance(v, (e2.Ref, e2.Opaque)) and v.ty == 'usize' and not k.startswith('param:')]
            a, b = ins.get('v_hat'), ins.get('w_hat')
            ok = a is not None and b is not None
            if ok:
                p = z3.And(*pre, a >= 0, a < Q, b >= -(Q // 2) - 1, b <= Q // 2 + 1)
                ok &= sess.discharge_obligations('add_vector_ntt element', obl, p)
                ok &= sess.discharge('add_vector_ntt element: v + w', out.t != a + b, pre=p, fn=nm) == 'unsat'
            self.ob('add_vector_ntt: coefficient-wise sum without overflow for a canonical and a centred operand [' + nm + ']', ['C04', 'C11', 'C13'], ok, '')
            self.run.functions.append('MIR ' + nm)

    def run_all(self):
        for fn in (self.verify_internal, self.sign_internal, self.key_gen_internal, self.private_to_public_key, self.expand_keys, self.into_bytes, self.helper_kernels):
            try:
                fn()
            except e2.Refuse as e:
                self.refused(fn.__name__, ['C01', 'C02', 'C03', 'C04', 'C09', 'C11'], 'translator refused: ' + str(e))
            except KeyError as e:
                self.refused(fn.__name__, ['C01', 'C02', 'C03', 'C04', 'C09', 'C11'], 'anchor missing: ' + str(e))
        try:
            layout.run(self.funcs, self.results)
            self.run.functions.append('MIR sig_decode / sig_encode / sk_decode / sk_encode / pk_decode / w1_encode (section layout, per parameter set, loop index symbolic)')
        except e2.Refuse as e:
            self.refused('layout obligations', ['C08', 'C02', 'C09'], str(e))
        try:
            hintlemmas.run(self.funcs, self.results)
            hintlemmas.run_pack(self.funcs, self.results)
            self.run.functions.append('MIR hint_bit_unpack (three loops, one iteration each from an arbitrary state; K and omega symbolic)')
        except (e2.Refuse, KeyError, IndexError) as ex:
            self.results.append({'name': 'hint_bit_unpack loop lemmas', 'tags': ['C08', 'C02', 'C05', 'C13'], 'verdict': 'refused', 'detail': repr(ex)})
        samplers.run(self.funcs, self.results)
        self.run.functions.append('MIR expand_a / expand_s closures, expand_mask, rej_ntt_poly, rej_bounded_poly (seed construction; one loop iteration from an arbitrary counter)')
        return self.results


def prefix_path_inputs(p):
    return {}
