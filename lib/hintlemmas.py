"""Loop-step lemmas for HintBitUnpack (FIPS 204 Algorithm 21) on the real MIR of `hint_bit_unpack`, for symbolic K, omega and an
arbitrary loop state under the invariant  Index <= omega, len(y) = omega + K, omega + K < 256, i < K:
  L1 entry of the per-polynomial loop:  bottom iff y[omega+i] < Index or y[omega+i] > omega; otherwise First := Index
  L2 one iteration of the position loop (Index < y[omega+i] <= omega): bottom iff Index > First and y[Index-1] >= y[Index];
     otherwise h[i][y[Index]] := 1 and Index := Index + 1
  L3 one iteration of the padding loop over i in [Index, omega): bottom iff y[i] != 0
  L4 loop structure: polynomials 0..K, positions while Index < y[omega+i], padding Index..omega, result Ok(h)
plus every index-bounds / overflow obligation of the checked MIR under the invariant (C13)."""
import re
import z3
import e2
import skel


def prove(*f):
    import zutil
    return zutil.check(*f) == z3.unsat


def user_vars(f, ty_rx, init_rx=None):
    """user variables (locals with a debug name) of a type, optionally with an initialising statement `_N = <init>`; by local number.
    Used when the pinned source names are gone (a rename must not matter)."""
    out = []
    for place, name in f.debug.items():
        if not re.match(r'^_\d+$', place) or not re.match(ty_rx, f.locals.get(place, '')):
            continue
        if init_rx and not any(re.match(r'^' + re.escape(place) + r' = ' + init_rx + r'$', l) for ls in f.blocks.values() for l in ls):
            continue
        out.append(place)
    return sorted(out, key=lambda x: int(x[1:]))


def anchors_unpack(f):
    il = f.debug_of.get('index'); fl = f.debug_of.get('first'); hl = f.debug_of.get('h'); oul = f.debug_of.get('omega_u')
    if not il:
        c = user_vars(f, r'^u8$', r'const 0_u8'); il = c[0] if len(c) == 1 else None
    if not fl and il:
        c = [x for x in user_vars(f, r'^u8$', r'copy ' + re.escape(il)) if x != il]; fl = c[0] if len(c) == 1 else None      # `let first = index`
    if not hl:
        c = user_vars(f, r'^\[(types::)?R; K\]$'); hl = c[0] if len(c) == 1 else None
    if not oul:
        c = user_vars(f, r'^usize$'); oul = c[0] if c else None          # `let omega_u = usize::try_from(omega)...` is the first statement
    return il, fl, hl, oul


def run(funcs, results):
    tags = ['C08', 'C02', 'C05', 'C13']
    fn = 'hint_bit_unpack'
    def ob(name, ok, detail=''):
        results.append({'name': name, 'tags': tags, 'verdict': 'holds' if ok else 'mismatch', 'detail': detail})
    fails = []
    def C(label, val):
        if not val:
            fails.append(label)
        return bool(val)
    f = funcs[fn]
    # loop heads
    E0, paths0 = skel.extract(funcs, fn)
    heads = sorted({p.stop[5:] for p in paths0 if p.stop.startswith('loop:')})
    kind = {}
    iter_heads = [h for h in heads if 'as Iterator>::next' in ' '.join(f.blocks[h])]
    other = [h for h in heads if h not in iter_heads]
    # the per-polynomial loop is the iterator loop reached first; the padding loop the other one; the position loop is the `while`
    Eh, ph = skel.extract(funcs, fn, stop=tuple(heads))
    firsth = [p.stop for p in ph if p.stop in heads]
    if len(iter_heads) == 2 and len(other) == 1 and firsth and firsth[0] in iter_heads:
        kind['outer'] = firsth[0]
        kind['pad'] = [h for h in iter_heads if h != firsth[0]][0]
        kind['pos'] = other[0]
    # locals by debug name
    il, fl, hl, oul = anchors_unpack(f)
    if not all([il, fl, hl, oul]):
        results.append({'name': 'hint_bit_unpack: locals index/first/h/omega_u', 'tags': tags, 'verdict': 'refused', 'detail': str(f.debug_of)}); return
    # prefix: state on first arrival at the outer head
    Ep, pre = skel.extract(funcs, fn, stop=(kind['outer'],))
    pp = [p for p in pre if p.stop == kind['outer']]
    if len(pp) != 1:
        results.append({'name': 'hint_bit_unpack: prefix', 'tags': tags, 'verdict': 'refused', 'detail': f'{len(pp)} prefix paths'}); return
    st0 = dict(pp[0].st)
    idx0 = st0.get(il)
    ob('hint_bit_unpack: Index starts at 0, h at 0^k', idx0 is not None and Ep.concrete(idx0) == 0 and 'repeat' in Ep.show(st0.get(hl), st0), Ep.show(st0.get(hl), st0)[:80])
    omega = z3.BitVec('arg:omega', 32)
    K = z3.BitVec('param:K', 64)
    Y = z3.Array('Y', z3.BitVecSort(64), z3.BitVecSort(8))
    ylen = z3.BitVec('len(y_bytes)', 64)
    index = z3.BitVec('index', 8); first = z3.BitVec('first', 8)
    om64 = z3.ZeroExt(32, omega)
    inv = [omega >= 1, omega < 256, z3.ULT(K, 256), K >= 1, z3.ULT(om64 + K, 256), ylen == om64 + K, z3.ULE(z3.ZeroExt(56, index), om64), z3.ULE(first, index)]

    l1_state = None

    def segment(start, extra_init=None, base=None):
        Ex = e2.Exec(funcs, mode='bv', inline=set()); Ex.cut_loops = True; Ex.lazy_arrays = True
        st = dict(base if base is not None else st0); st.pop('@stop', None); st.pop('@trail', None); st['@calls'] = ()
        st[il] = e2.Val(index, 'u8'); st[fl] = e2.Val(first, 'u8')
        st[oul] = e2.Val(om64, 'usize')
        st['@arrays'] = {'y_bytes': Y}
        st.pop(hl, None)
        if extra_init:
            st.update(extra_init)
        res, obl = Ex.run(fn, [], init=st, start=start, stop=tuple(kind.values()))
        outs = []
        for pc, s in res:
            if isinstance(s, dict):
                outs.append((pc, s, s.get('@stop')))
        for pc, s in Ex.path_states:
            if isinstance(s, dict) and s.get('@stop') is None and '_0' in s:
                outs.append((pc, s, 'return'))
        return Ex, outs, obl

    def is_err(Ex, s):
        r = s.get('_0')
        return isinstance(r, e2.Enum) and Ex.concrete(e2.Val(r.t, 'isize')) == 1

    def isym(Ex):
        n = [k for k in Ex.inputs if 'Iterator::next' in k and k.endswith('@Some.0')]
        return n

    # ---- L1 + L4(outer): from the head of the per-polynomial loop
    Ex, outs, obl = segment(kind['outer'])
    names = isym(Ex)
    good = bool(names)
    det = ''
    if good:
        i = Ex.inputs[names[0]].t
        pre1 = inv + [z3.ULT(i, K)]
        cnt = z3.Select(Y, om64 + i)
        bottom = z3.Or(z3.ULT(cnt, index), z3.UGT(z3.ZeroExt(24, cnt), omega))
        to_pos = [o for o in outs if o[2] == kind['pos']]
        errs = [o for o in outs if o[2] == 'return' and is_err(Ex, o[1])]
        to_pad = [o for o in outs if o[2] == kind['pad']]
        good &= C('len(to_pos) >= 1 and len(errs) >= 1 and len(to_pad) >= 1', len(to_pos) >= 1 and len(errs) >= 1 and len(to_pad) >= 1)
        for pc, s, _ in to_pos:
            good &= C('prove(*pre1, pc, bottom) and prove(*pre1, pc, s[fl].t != index) and pr', prove(*pre1, pc, bottom) and prove(*pre1, pc, s[fl].t != index) and prove(*pre1, pc, s[il].t != index))
            l1_state = (s, i)
        for pc, s, _ in errs:
            good &= C('prove(*pre1, pc, z3.Not(bottom))', prove(*pre1, pc, z3.Not(bottom)))
        # leaving the loop happens exactly when the iterator is exhausted: the padding loop is then entered with Index unchanged
        for pc, s, _ in to_pad:
            good &= C('prove(*pre1[:-1], pc, s[il].t != index)', prove(*pre1[:-1], pc, s[il].t != index))
            pcs = [Ex.call_records[c] for c in s.get('@calls', ())]
            okr = False
            for c in pcs:
                if 'into_iter' not in c['callee']:
                    continue
                rg = c['argv'][0]
                if isinstance(rg, e2.Opaque) and isinstance(rg.meta, dict) and 'start' in rg.meta and 'end' in rg.meta:
                    a, b = rg.meta['start'].t, rg.meta['end'].t
                    za = z3.ZeroExt(64 - a.size(), a) if a.size() < 64 else a
                    zb = z3.ZeroExt(64 - b.size(), b) if b.size() < 64 else b
                    if prove(*pre1[:-1], pc, z3.Or(za != z3.ZeroExt(56, index), zb != om64)):
                        okr = True
            good &= C('padding loop ranges over Index..omega', okr)
        # no panic under the invariant
        for o in obl:
            good &= C('prove(*pre1, o[cond])', prove(*pre1, o['cond']))
        rng = [c for c in Ep.call_records.values() if 'into_iter' in c['callee'] and 'end: |param:K|' in c['args'][0] and 'start: 0' in c['args'][0]]
        good &= C('bool(rng)', bool(rng))
        det = f'{len(to_pos)} continue, {len(errs)} bottom, {len(to_pad)} exit paths, {len(obl)} panic obligations'
    ob('hint_bit_unpack L1: for i in 0..k: bottom iff y[omega+i] < Index or y[omega+i] > omega; otherwise First := Index', good, det + (' FAILED: ' + '; '.join(fails) if fails else ''))
    fails.clear()

    # ---- L2: one iteration of the position loop
    good = True
    # i lives in the local assigned from the outer iterator: find it through the MIR statement `_X = copy ((_N as Some).0: usize)` in the block after the outer head
    if l1_state is None:
        ob('hint_bit_unpack L2: state on entry of the position loop', False, 'L1 has no continue path'); return
    base_state, i = l1_state
    # the temporaries computed in the per-polynomial body (omega_u + i, ...) are kept; Index and First become arbitrary again
    Ex, outs, obl = segment(kind['pos'], None, base=base_state)
    cnt = z3.Select(Y, om64 + i)
    pre2 = inv + [z3.ULT(i, K), z3.ULE(z3.ZeroExt(24, cnt), omega)]
    idx64 = z3.ZeroExt(56, index)
    cont = [o for o in outs if o[2] == kind['pos']]
    errs = [o for o in outs if o[2] == 'return' and is_err(Ex, o[1])]
    leave = [o for o in outs if o[2] == kind['outer']]
    bottom2 = z3.And(z3.UGT(index, first), z3.UGE(z3.Select(Y, idx64 - 1), z3.Select(Y, idx64)))
    good = len(cont) >= 1 and len(errs) >= 1 and len(leave) >= 1
    hkey = None
    for pc, s, _ in cont:
        good &= C('taken only while Index < y[omega+i]', prove(*pre2, pc, z3.UGE(index, cnt)))
        good &= C('prove(*pre2, pc, bottom2)', prove(*pre2, pc, bottom2))
        good &= C('prove(*pre2, pc, s[il].t != index + 1)', prove(*pre2, pc, s[il].t != index + 1))
        arrs = s.get('@arrays', {})
        hk = [k for k in arrs if k.startswith(hl + '[')]
        good &= C('len(hk) == 1', len(hk) == 1)
        if hk:
            hkey = hk[0]
            A0 = z3.Array('mem:' + hk[0], z3.BitVecSort(64), z3.BitVecSort(32))
            kk = z3.BitVec('k', 64)
            good &= C('prove(*pre2, pc, z3.Select(arrs[hk[0]], kk) != z3.Select(z3.Store(A0, ', prove(*pre2, pc, z3.Select(arrs[hk[0]], kk) != z3.Select(z3.Store(A0, z3.ZeroExt(56, z3.Select(Y, idx64)), z3.BitVecVal(1, 32)), kk)))
    for pc, s, _ in errs:
        good &= C('prove(*pre2, pc, z3.Not(z3.And(z3.ULT(index, cnt), bottom2)))', prove(*pre2, pc, z3.Not(z3.And(z3.ULT(index, cnt), bottom2))))
    for pc, s, _ in leave:
        good &= C('prove(*pre2, pc, z3.ULT(index, cnt)) and prove(*pre2, pc, s[il].t != i', prove(*pre2, pc, z3.ULT(index, cnt)) and prove(*pre2, pc, s[il].t != index))
    for o in obl:
        good &= C('prove(*pre2, o[cond])', prove(*pre2, o['cond']))
    ob('hint_bit_unpack L2: while Index < y[omega+i]: bottom iff Index > First and y[Index-1] >= y[Index]; else h[i][y[Index]] := 1, Index += 1', good,
       f'{len(cont)} continue, {len(errs)} bottom, {len(leave)} exit paths, {len(obl)} panic obligations, h cell {hkey}' + (' FAILED: ' + '; '.join(fails) if fails else ''))
    fails.clear()

    # ---- L3: padding loop
    Ex, outs, obl = segment(kind['pad'])
    names = isym(Ex)
    good = bool(names)
    if good:
        j = Ex.inputs[names[0]].t            # loop variable (u8 in the pinned source)
        j64 = z3.ZeroExt(64 - j.size(), j) if j.size() < 64 else j
        pre3 = inv + [z3.UGE(j64, z3.ZeroExt(56, index)), z3.ULT(j64, om64)]
        cont = [o for o in outs if o[2] == kind['pad']]
        errs = [o for o in outs if o[2] == 'return' and is_err(Ex, o[1])]
        oks = [o for o in outs if o[2] == 'return' and not is_err(Ex, o[1])]
        good &= C('len(cont) >= 1 and len(errs) >= 1 and len(oks) >= 1', len(cont) >= 1 and len(errs) >= 1 and len(oks) >= 1)
        yj = z3.Select(Y, j64)
        for pc, s, _ in cont:
            good &= C('prove(*pre3, pc, yj != 0)', prove(*pre3, pc, yj != 0))
        for pc, s, _ in errs:
            good &= C('prove(*pre3, pc, yj == 0)', prove(*pre3, pc, yj == 0))
        for o in obl:
            # the debug_assert on the hint weight after the loop is discharged by the invariant "at most omega ones" (C08 harnesses); index bounds here
            if 'too many' in o['msg']:
                continue
            good &= C('prove(*pre3, o[cond])', prove(*pre3, o['cond']))
        for pc, s, _ in oks:
            r = s.get('_0')
            good &= C('isinstance(r, e2.Enum) and 0 in r.meta', isinstance(r, e2.Enum) and 0 in r.meta)
    ob('hint_bit_unpack L3: for i in Index..omega: bottom iff y[i] != 0; then Ok(h)', good, f'{len(outs)} paths' + (' FAILED: ' + '; '.join(fails) if fails else ''))


def run_pack(funcs, results):
    """HintBitPack (Algorithm 20) on the real MIR of hint_bit_pack::<CTEST = false, K>: y zeroed first; for i in 0..k, for j in 0..256:
    if h[i][j] != 0 { y[Index] := j; Index += 1 }; after each polynomial y[omega + i] := Index"""
    tags = ['C08', 'C03']
    fn = 'hint_bit_pack'
    fails = []
    def C(label, val):
        if not val:
            fails.append(label)
        return bool(val)
    def ob(name, ok, detail=''):
        results.append({'name': name, 'tags': tags, 'verdict': 'holds' if ok else 'mismatch', 'detail': detail + (' FAILED: ' + '; '.join(fails) if fails else '')})
        fails.clear()
    f = funcs[fn]
    P = {'CTEST': False}
    E0, paths0 = skel.extract(funcs, fn, params=P)
    heads = sorted({p.stop[5:] for p in paths0 if p.stop.startswith('loop:')})
    Eh, ph = skel.extract(funcs, fn, params=P, stop=tuple(heads))
    firsth = [p for p in ph if p.stop in heads]
    if len(heads) != 2 or not firsth:
        results.append({'name': 'hint_bit_pack: two loops identified', 'tags': tags, 'verdict': 'refused', 'detail': str(heads)}); return
    outer = firsth[0].stop; inner = [h for h in heads if h != outer][0]
    il = f.debug_of.get('index'); oul = f.debug_of.get('omega_u')
    if not oul:
        c = user_vars(f, r'^usize$'); oul = c[0] if c else None
    if not il:
        c = user_vars(f, r'^usize$', r'const 0_usize'); il = c[0] if len(c) == 1 else None
    if not il or not oul:
        results.append({'name': 'hint_bit_pack: locals index / omega_u', 'tags': tags, 'verdict': 'refused', 'detail': str(f.debug_of)}); return
    st0 = dict(firsth[0].st)
    # P0: output zeroed before anything else, Index = 0
    pre_calls = [skel.short_callee(c['callee']) for c in firsth[0].calls]
    zero_closure = [n for n in funcs if n.startswith('hint_bit_pack::{closure#') and funcs[n].ret == '()' and len(funcs[n].params) == 2 and funcs[n].params[1][1].strip() == '&mut u8']
    okz = False
    for zc in zero_closure:
        Ez = e2.Exec(funcs, mode='bv')
        res, obl = Ez.run(zc, [None, e2.Ref('cell', '&mut u8')], init={'cell': e2.Val(z3.BitVec('old', 8), 'u8')})
        okz |= len(Ez.path_states) == 1 and Ez.concrete(Ez.path_states[0][1].get('cell')) == 0
    good = C('for_each over iter_mut(y_bytes)', any(n.endswith('for_each') for n in pre_calls) and any('iter_mut' in n for n in pre_calls))
    good &= C('the for_each closure stores 0', okz)
    good &= C('Index starts at 0', Eh.concrete(st0.get(il)) == 0)
    ob('hint_bit_pack P0: y <- 0^(omega+k), Index <- 0', good)
    omega = z3.BitVec('arg:omega', 32); om64 = z3.ZeroExt(32, omega)
    K = z3.BitVec('param:K', 64)
    Y = z3.Array('Yp', z3.BitVecSort(64), z3.BitVecSort(8))
    ylen = z3.BitVec('len(y_bytes)', 64)
    index = z3.BitVec('index', 64)
    inv = [omega >= 1, omega < 256, K >= 1, z3.ULT(K, 256), z3.ULT(om64 + K, 256), ylen == om64 + K, z3.ULE(index, om64)]

    def segment(start, base, extra=None):
        Ex = e2.Exec(funcs, mode='bv', inline=set(), params=P); Ex.cut_loops = True; Ex.lazy_arrays = True
        st = dict(base); st.pop('@stop', None); st.pop('@trail', None); st['@calls'] = ()
        st[il] = e2.Val(index, 'usize'); st[oul] = e2.Val(om64, 'usize')
        st['@arrays'] = {'y_bytes': Y}
        if extra:
            st.update(extra)
        res, obl = Ex.run(fn, [], init=st, start=start, stop=(outer, inner))
        outs = [(pc, s, s.get('@stop')) for pc, s in res if isinstance(s, dict)]
        outs += [(pc, s, 'return') for pc, s in Ex.path_states if isinstance(s, dict) and s.get('@stop') is None]
        return Ex, outs, obl

    # outer head: Some(i) -> enter the inner loop (first arrival at inner head); None -> return
    Ex, outs, obl = segment(outer, st0)
    names = [k for k in Ex.inputs if 'Iterator::next' in k and k.endswith('@Some.0')]
    to_inner = [o for o in outs if o[2] == inner]
    rets = [o for o in outs if o[2] == 'return']
    good = C('outer loop has enter and exit paths', bool(names) and len(to_inner) >= 1 and len(rets) >= 1)
    rng = [c for c in Eh.call_records.values() if 'into_iter' in c['callee'] and 'start: 0, end: |param:K|' in c['args'][0]]
    good &= C('outer loop ranges over 0..k', bool(rng))
    ob('hint_bit_pack P3: for i in 0..k; returns after the last polynomial', good)
    if not to_inner:
        return
    i = Ex.inputs[names[0]].t
    base_in = to_inner[0][1]
    # inner iteration from an arbitrary (j, Index)
    Ex, outs, obl = segment(inner, base_in)
    jn = [k for k in Ex.inputs if 'Iterator::next' in k and k.endswith('@Some.0')]
    cont = [o for o in outs if o[2] == inner]
    leave = [o for o in outs if o[2] == outer]
    good = C('inner loop has continue and exit paths', bool(jn) and len(cont) >= 2 and len(leave) >= 1)
    if good:
        j = Ex.inputs[jn[0]].t
        hsym = [v for k, v in Ex.inputs.items() if isinstance(v, e2.Val) and not isinstance(v, (e2.Ref, e2.Opaque)) and v.ty == 'i32' and (k.startswith('h[') or k.startswith('mem:h['))]
        good &= C('reads h[i][j]', len(hsym) == 1)
        if hsym:
            hij = hsym[0].t
            pre = inv + [z3.ULT(i, K), z3.ULT(j, 256), z3.Implies(hij != 0, z3.ULT(index, om64))]
            kk = z3.BitVec('k', 64)
            for pc, s, _ in cont:
                Y1 = s['@arrays']['y_bytes']; idx1 = s[il].t
                want_y = z3.If(hij != 0, z3.Store(Y, index, z3.Extract(7, 0, j)), Y)
                good &= C('y[Index] := j and Index += 1 exactly when h[i][j] != 0', prove(*pre, pc, z3.Or(z3.Select(Y1, kk) != z3.Select(want_y, kk), idx1 != z3.If(hij != 0, index + 1, index))))
            for o in obl:
                good &= C('no panic: ' + o['msg'][:40], prove(*pre, o['cond']))
            for pc, s, _ in leave:
                Y1 = s['@arrays']['y_bytes']
                good &= C('after the polynomial: y[omega + i] := Index', prove(*inv, z3.ULT(i, K), pc, z3.Or(z3.Select(Y1, kk) != z3.Select(z3.Store(Y, om64 + i, z3.Extract(7, 0, index)), kk), s[il].t != index)))
        rng = [c for c in Ex.call_records.values() if 'into_iter' in c['callee']] + [c for c in base_in.get('@calls', ()) and [] or []]
    ob('hint_bit_pack P1/P2: for j in 0..256: if h[i][j] != 0 { y[Index] := j; Index += 1 }; then y[omega + i] := Index', good, f'{len(cont)} continue, {len(leave)} exit paths')
