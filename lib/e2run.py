"""glue between the E2 engine and a check Run: discharge obligations, cross-check, replay scalar counterexamples"""
import os
import time
import z3
import e2
import vlib


class E2Session:
    def __init__(self, run, scr, tier):
        self.run = run; self.scr = scr; self.tier = tier
        self.cap = 180 if tier == 'quick' else 900
        self.cross = []          # (name, primary verdict, z3-4.8 verdict)
        self.cases = []          # scalar replay cases (name, args) for sat models
        self.ncross = 0

    def discharge(self, name, formula, *, fn='', enc='bv', pre=None, core=True, cross=True, on_sat=None, note=''):
        """formula = negated property (incl. preconditions); unsat = holds.  returns verdict"""
        f = z3.And(pre, formula) if pre is not None else formula
        q = e2.solve(e2.Query(name, f), self.cap)
        rec = {'name': name, 'engine': f'E2 mir->smt ({enc})', 'fn': fn, 'verdict': q.verdict, 'solver_s': round(q.time, 3), 'solver': 'z3 ' + z3.get_version_string(), 'note': note}
        if q.verdict == 'unsat' and cross:
            t = time.time()
            c = e2.cross_check(f, timeout_s=min(self.cap, 30))
            rec['cross_z3_4.8.12'] = c; rec['cross_s'] = round(time.time() - t, 2)
            self.ncross += 1
            if c == 'sat':
                rec['verdict'] = 'unknown'; rec['note'] = 'solver disagreement (z3 5.1 unsat, z3 4.8.12 sat)'
                self.run.inconclusive.append(f'{name}: solver disagreement')
        if q.verdict == 'sat':
            vals = e2.model_values(q.model, None)
            rec['model'] = {k: v for k, v in list(vals.items())[:12]}
            if on_sat:
                on_sat(name, vals, rec)
            elif getattr(self, 'quiet_sat', False):
                pass
            else:
                self.run.inconclusive.append(f'{name}: sat (counterexample {rec["model"]}) but no replay available')
        if q.verdict == 'unknown' and core:
            self.run.inconclusive.append(f'{name}: solver gave no answer within {self.cap}s')
        self.run.add_query(rec, core=core)
        vlib.log(f'  [E2] {name}: {rec["verdict"]} ({q.time:.2f}s)' + (f' cross={rec.get("cross_z3_4.8.12")}' if 'cross_z3_4.8.12' in rec else ''))
        return rec['verdict']

    def discharge_obligations(self, prefix, obligations, pre, skip=None, **kw):
        """all panic/assert obligations of one symbolic run, one query each (identical messages are merged by disjunction)"""
        groups = {}
        for o in obligations:
            groups.setdefault((o['fn'], o['kind'], o['msg']), []).append(o['cond'])
        ok = True
        for (fn, kind, msg), conds in groups.items():
            if skip and skip(fn, msg):
                self.run.add_query({'name': f'{prefix}: no-panic [{fn}] {kind}: {msg}', 'engine': 'E2', 'verdict': 'delegated', 'note': 'bit-vector srem over the full 32-bit range stalls z3 in the quick cap; decided by the E1 twin harness (all default checks incl. this assertion)'}, core=False)
                continue
            v = self.discharge(f'{prefix}: no-panic [{fn}] {kind}: {msg}', z3.Or(*conds) if len(conds) > 1 else conds[0], pre=pre, fn=fn, **kw)
            ok &= (v == 'unsat')
        return ok


def merged(E, res):
    out = None
    for c, v in reversed(res):
        out = v if out is None else E.ite(c, v, out)
    return out


def scalar_replay_source(cases):
    """cases: [(fname, [int args])] -> source of the native replay module"""
    tmpl = open(os.path.join(vlib.VERIF, 'replay', 'scalar.rs')).read()
    rows = ',\n'.join(f'    ("{n}", &[{", ".join(str(int(a)) + "i64" for a in args)}])' for n, args in cases)
    return f'''
#[path = "{vlib.VERIF}/kani/spec.rs"]
mod spec;
mod scalar {{
{tmpl}
}}
extern crate std;
const CASES: &[(&str, &[i64])] = &[
{rows}
];
#[test]
fn scalar_cases() {{
    let mut bad = 0;
    for (name, args) in CASES {{
        let got = scalar::eval(name, args);
        let h = scalar::holds(name, args);
        std::println!("CASE {{}} {{:?}} => {{}} holds={{}}", name, args, got, h);
        if !h {{ bad += 1; }}
    }}
    assert!(bad == 0, "VERIF-PROPERTY-VIOLATED {{}} scalar case(s) violate the specification", bad);
}}
'''


def run_scalar_cases(scr, cases, release=False):
    """-> {(name, args tuple): (got, holds)}, outcome"""
    import re
    oc, out = vlib.native_test(scr, scalar_replay_source(cases), 'scalar_cases', release=release)
    res = {}
    for m in re.finditer(r'CASE (\w+) \[([-0-9, ]*)\] => (.*?) holds=(true|false)', out):
        args = tuple(int(x) for x in m.group(2).split(',') if x.strip())
        res[(m.group(1), args)] = (m.group(3), m.group(4) == 'true')
    return res, oc, out
