#!/usr/bin/env python3
"""regenerates MANIFEST.json from the table below (keeps the manifest valid as checks are added)"""
import json, os
HERE = os.path.dirname(os.path.abspath(__file__))
BASE = "cd /repo && cargo nextest run --workspace --no-fail-fast --tool-config-file pb:/w/lib/nextest.toml --profile pb --test-threads 8 --offline || cargo test --workspace --no-fail-fast --offline"
CHECKS = {
 'C07': dict(cat='model_checking', tech='bounded model checking of the real entry points (Kani/CBMC, SAT) with internals stubbed to recorders; context length symbolic 0..=1024',
   text='Kani decides, for each parameter set and each public entry point (try_sign_with_rng, try_hash_sign_with_rng, verify, hash_verify, _internal_sign, _internal_verify), that a context of n bytes is rejected without reaching Sign_internal / Verify_internal iff n > 255, and is otherwise passed through unchanged, for every n in 0..=1024, every RNG outcome and every pre-hash function. Complete for the wrapper logic inside the bound; the length byte inside mu is covered by the C06 transcript obligations.',
   note='Kani/CBMC; sign_internal / verify_internal replaced by recorders; sha2/sha3 oracle models; n <= 1024.', ref='DESIGN.md §5 C07'),
 'C10': dict(cat='model_checking', tech='bounded model checking of the real bit_unpack (Kani/CBMC, SAT) over every byte string of an eta section; native replay through PrivateKey::try_from_bytes',
   text='For both eta values the solver decides over all 2^768 / 2^1024 byte strings of one s1/s2 section that the real bit_unpack(v, eta, eta) returns Ok exactly when every field is <= 2*eta, and that the decoded coefficient at a symbolic index is eta - field. Counterexamples are replayed through the public try_from_bytes of ml_dsa_44 / ml_dsa_65. An E2 layout obligation per parameter set shows that sk_decode hands every s1 / s2 section (loop index symbolic) to bit_unpack with (eta, eta); a native workload tries every slot x out-of-range value.',
   note='Kani/CBMC; zeroising Drop of R stubbed; sk_decode applies bit_unpack section by section (structural).', ref='DESIGN.md §5 C10'),
 'C12': dict(cat='model_checking', tech='bounded model checking of the real entry points (Kani/CBMC, SAT) with a fault-injecting model RNG (symbolic error value, symbolic per-request fault mask) + E2 skeletons of the OS-RNG wrappers',
   text='Kani decides for try_keygen_with_rng, try_sign_with_rng and try_hash_sign_with_rng of every parameter set: exactly one 32-byte request through try_fill_bytes; on failure (before writing or after any prefix) the result is Err and no key / signature is computed; the infallible RNG methods are never called; on success the 32 drawn bytes are exactly the rnd / seed handed to Sign_internal / KeyGen_internal.',
   note='Kani/CBMC; internals stubbed to recorders; OsRng wrappers are one-line delegations (not executed).', ref='DESIGN.md §5 C12'),
 'C15': dict(cat='proof', tech='SMT (z3 bit-vector / integer encodings generated from the real MIR) over the whole input domain of each scalar kernel, twinned with Kani/CBMC harnesses',
   text='Every scalar kernel (partial_reduce32, full_reduce32, center_mod, mont_reduce, partial_reduce64 on x<<32, decompose, high_bits, low_bits, make_hint, use_hint, coeff_from_three_bytes, coeff_from_half_byte, the two Power2Round closures) is translated from the MIR of the current tree and each obligation (equality with the FIPS 204 formula, congruence, range, every overflow / debug_assert site) is decided unsat over the entire documented domain - no bound. Kani decides the same lemmas on the compiled code. The translator is validated each run against native execution.',
   note='trusted: rustc MIR dump, translator (validated), z3 5.1 (cross-checked with z3 4.8.12), Kani/CBMC, transcription of the FIPS formulas.', ref='DESIGN.md §5 C15'),
 'C18': dict(cat='model_checking', tech='SMT over the real MIR (integer encoding, Montgomery call summary): inductive butterfly lemmas with symbolic magnitude bound, loop-nest schedule lemmas (one step of each loop of ntt / inv_ntt from an arbitrary state), per-closure range lemmas, call-site range chain by def-chain tracing; overflow witnesses by solver + template + native replay',
   text='Inductive lemmas on one forward / inverse butterfly iteration from an arbitrary loop state (all j, len, zeta, coefficient values within a symbolic bound B): exact output equations, frame, no i32/i64 overflow, magnitude growth; copy-in / final scaling of inv_ntt; to_mont and mat_vec_mul closures; then every inv_ntt / to_mont / mat_vec_mul call site of the crate is shown to respect the admissible input magnitude (producer found by tracing the MIR). Composition to "equals the negacyclic product" uses linearity + a concrete basis premise (stated).',
   note='trusted: MIR dump, translator, z3; composition step is pen-and-paper; basis premise is a concrete native run.', ref='DESIGN.md §5 C18'),
}
CHECKS['C16'] = dict(cat='model_checking', tech='bounded model checking of the real zeroising Drop / Zeroize code (Kani/CBMC, SAT) for every content and read-back position, plus a dataflow skeleton of the derived Drop bodies extracted from the MIR',
   text='Kani executes the real volatile-write erasure of R, T, [u8;32], [u8;64] and [T;2] for every content and proves every element zero afterwards; the E2 skeleton of the derived Drop/Zeroize bodies of PrivateKey, PublicKey, R, T shows that every field of each struct is handed to a zeroising call on the single path of Drop (so a #[zeroize(skip)] or a removed derive is reported). The whole PublicKey<1,1> object is also decided in the quick tier; the PrivateKey<1,1> object (18 min) in the thorough tier.',
   note='only the inline-asm optimisation barrier is stubbed; zeroize crate AssertZeroize forwarding trusted; real (K,L) by genericity.', ref='DESIGN.md §5 C16')

CHECKS['C14'] = dict(cat='other', tech='SMT self-composition (2-safety) over the release-flag MIR: taint of everything derived from the random generator, one z3 query per branch / index / early-exit observation that mentions a secret-derived symbol; findings replayed natively with coverage region counters and valgrind instruction counts',
   text='MIR-level non-interference in constant-time test mode: for every crate body reachable from key_gen_internal / sign_internal with CTEST = true, and for 27 secret-handling kernels alone with every coefficient input secret, no switchInt discriminant, array index, slice position or early-exit library call depends on secret data (solver: two executions agreeing on all public symbols cannot differ in the observed value; loops: one iteration from a havocked state with taint fixed point). Not claimed: the compiled artefact (instruction selection), bodies of core / sha3 / zeroize, the exact whole-pipeline trace through SHAKE.',
   note='range checks are analysed on success only (property wording); a finding is a VIOLATION only when the real code shows different coverage-region or instruction counts for two secrets.', ref='DESIGN.md §5 C14, §11.6')

_SK = 'E2 dataflow skeleton of the real MIR (calls uninterpreted) unified with the FIPS 204 call sequence + SMT decision/closure lemmas'
CHECKS['C01'] = dict(cat='model_checking', tech='compositional: Kani/CBMC lemmas on the real hint kernels over the whole coefficient domain + ' + _SK,
   text='Completeness is decided link by link: hint duality (HighBits stable under the first test; UseHint(MakeHint) = HighBits with the exact call shapes of sign/verify) by Kani for every coefficient and all three sets; identical mu and commitment transcripts, accept-path conditions and UseHint/w1Encode wiring on both sides by the skeleton obligations (unbounded in K, L, lengths); codec round trip C08; key provenances C09/C11. The composition itself is pen and paper and stated.',
   note='hash = oracle; algebra (w\'approx = w - cs2 + ct0) = C18; one loop iteration from an arbitrary kappa.', ref='DESIGN.md §5 C01')
CHECKS['C02'] = dict(cat='translation_validation', tech=_SK + '; wrappers by Kani/CBMC',
   text='verify_internal is validated against Algorithm 8: on every path the call sequence and the provenance of every argument equal the algorithm (three message formattings), early exits return false, the result is equivalent to [[||z|| < gamma1-beta]] and [[c~ = c~\']] (SMT), the two per-coefficient closures equal their FIPS formulas for every coefficient (SMT); the public wrappers are validated against Algorithms 3 and 5 by Kani. Unbounded in K, L, message and context length.',
   note='hashes and NTT algebra uninterpreted (oracles / C18); decoders C08; kernels C15.', ref='DESIGN.md §5 C02')
CHECKS['C03'] = dict(cat='translation_validation', tech=_SK + '; wrappers by Kani/CBMC',
   text='sign_internal is validated against Algorithm 7: prefix (mu in three modes, rho\'\' = H(K||rnd||mu), kappa = 0) and one loop iteration from an arbitrary kappa (call sequence, argument provenance, the three path classes taken exactly under the FIPS rejection predicates and exhaustive, kappa += l on both rejections, sigEncode(c~, z mod+- q, h) on accept), closures equal FIPS formulas (SMT); wrappers (one 32-byte draw = rnd, OID / pre-hash selection) by Kani.',
   note='samplers and encoders uninterpreted here (C08/C15); kappa wrap-around outside.', ref='DESIGN.md §5 C03')
CHECKS['C04'] = dict(cat='translation_validation', tech=_SK + '; wrappers by Kani/CBMC',
   text='key_gen_internal is validated against Algorithm 6 (H(xi||k||l) split 32/64/32, ExpandS, ExpandA, t = A s1 + s2 fully reduced, Power2Round, tr = H(pkEncode)), the returned structs hold the prescribed precomputes, closures equal FIPS formulas; try_keygen_with_rng = keygen_from_seed on the drawn bytes (Kani).',
   note='samplers / Power2Round / pkEncode uninterpreted here (C15/C08).', ref='DESIGN.md §5 C04')
CHECKS['C05'] = dict(cat='other', tech='bit relevance only: ' + _SK + ' + loop-step lemmas of hint_bit_unpack / hint_bit_pack (SMT, K and omega symbolic; Kani window harnesses as fall-back) + Kani lemma UseHint(1,r) != UseHint(0,r); hash / lattice part not claimed',
   text='Only the solver-decidable part: no bit of signature, public key, message or context is ignored by verification and the encodings have no slack. That a changed transcript cannot collide under SHAKE256, or a changed z give the same w1\', is not claimed.',
   note='see coverage.explanation in the evidence.', ref='DESIGN.md §5 C05')
CHECKS['C06'] = dict(cat='model_checking', tech='SMT (z3 sequence theory) injectivity of the formatted message for byte strings of every length + ' + _SK + ' + Kani wrappers (OID / digest)',
   text='The shape of M\' absorbed by both signer and verifier is extracted from the MIR (dom, one length byte, ctx, then M or OID||PH(M)); z3 decides for byte strings of unbounded length that this formatting is injective for |ctx| <= 255 and that pure / pre-hash modes and the three pre-hash functions are pairwise disjoint; Kani decides OID and digest-length selection on the real hash_message.',
   note='binding of the signature to M\' rests on SHAKE256 (oracle).', ref='DESIGN.md §5 C06')
CHECKS['C08'] = dict(cat='model_checking', tech='bounded model checking of the real codecs (Kani/CBMC, SAT) against spec-literal Algorithms 16-21; per-loop unwind bounds from cbmc --show-loops',
   text='Hint decoder (reduced K=2, omega=8, same generic code): for every value of both count bytes and a 4-byte index window the real HintBitUnpack agrees with Algorithm 21 (accept/reject and decoded hint). Coefficient codecs: for every byte string of a polynomial BitUnpack equals the FIPS bit formula and BitPack reproduces the bytes (t1; thorough: t0, z); adjacent in-range coefficient pairs round-trip at every position (eta, w1 ranges). E2 layout obligations (per parameter set, loop index symbolic): sig_decode / sig_encode / sk_decode / sk_encode / pk_decode / w1_encode hand exactly the FIPS byte ranges to the (un)packers with the FIPS (a, b). A native differential at the real (K, omega) confirms counterexamples.',
   note='quick tier (below 15 min): E2 layout + hint loop-step lemmas (K, omega symbolic), one seed-selected adjacent-pair round-trip harness, native codec differential; thorough: all K=2 windows, the K=3 count harness, all-bytes bijections, all round trips, exhaustive K=2, omega=4 (best effort).', ref='DESIGN.md §5 C08')
CHECKS['C09'] = dict(cat='model_checking', tech=_SK + ' for expand_* / into_bytes + closure lemmas; composition with C18 / C08',
   text='The deserialise / serialise paths are shown to be decode; NTT; to_mont and mont_reduce; invNTT; re-centre / >> d; encode with the right fields, and each per-coefficient step is inverted exactly (SMT, every coefficient value, incl. t1 = 1023).',
   note='transform inversion and codec bijectivity are C18 / C08 / C10 obligations.', ref='DESIGN.md §5 C09')
CHECKS['C11'] = dict(cat='translation_validation', tech=_SK + ' for private_to_public_key vs key_gen_internal',
   text='private_to_public_key is validated against the t1 pipeline of KeyGen (same call sequence modulo leaving Montgomery form), rho and tr are copied from the private key, and every closure equals its formula for every coefficient value in the range its producer guarantees.',
   note='algebra uninterpreted (C18); counterexamples confirmed natively by a directed seed search.', ref='DESIGN.md §5 C11')
CHECKS['C13'] = dict(cat='model_checking', tech='panic-site inventory of the checked MIR (E2 skeleton, SMT per site under callee contracts) + the closure / kernel lemma suite (ranges that callee self-checks rely on) + loop-step lemmas of the hint decoder with every index / overflow obligation; native hostile-input workload and directed checked-release searches as replay vehicles',
   text='Every panic / assert site in the bodies of the big functions and public wrappers is enumerated from the checked MIR and shown unreachable under the concrete parameters and callee contracts; sites inside kernels, closures, codecs and transforms are obligations of C15 / C18 / C08 / C10; the hint-section decoder additionally runs here under Kani with all default checks (index bounds, overflow, debug assertions) on symbolic count and index bytes.',
   note='samplers are covered by the native workload only.', ref='DESIGN.md §5 C13')
NA = [
 ('C17', 'quantifies over 28 cargo feature configurations whose observable is rustc\'s exit status and a known-answer digest; cfg resolution happens before any MIR exists, so there is no symbolic variable for a solver - deciding it means enumerating concrete builds'),
]
def main():
    props = [json.loads(l)['id'] for l in open(os.path.join(HERE, 'properties.jsonl'))]
    checks = []
    for pid in props:
        if pid not in CHECKS or not os.path.exists(os.path.join(HERE, 'props', pid.lower() + '.py')):
            continue
        c = CHECKS[pid]
        checks.append({'property_id': pid, 'quick_cmd': f'./check {pid} --tier quick', 'thorough_cmd': f'./check {pid} --tier thorough',
                       'evidence_file': f'/verif/evidence/{pid}.json', 'replay_cmd_template': f'./check {pid} --replay {{path}}', 'engine': 'fips204-solver-checks',
                       'level_claimed': {'category': c['cat'], 'text': c['text'], 'design_ref': c['ref']}, 'level_note': c['note'], 'technique': c['tech']})
    claimed = {c['property_id'] for c in checks}
    na = [{'property_id': p, 'reason': r} for p, r in NA]
    for pid in props:
        if pid not in claimed and pid not in [p for p, _ in NA]:
            na.append({'property_id': pid, 'reason': 'check not built yet in this revision of /verif (planned per DESIGN.md §5); not claimed'})
    m = {'version': 1,
         'setup_cmd': 'cd /verif && ./setup.sh',
         'hooks': {'guard': 'cfg(kani) / cfg(test) modules injected into a scratch copy of /repo by the check scripts', 'enable': 'each check rsyncs /repo\'s working tree to a scratch directory, appends `#[cfg(kani)] mod verif_kani;` and `#[cfg(test)] mod verif_replay;` to the copy\'s src/lib.rs and patches sha2/sha3 to /verif/models in the copy\'s Cargo.toml; /repo itself carries no hook commits',
                   'baseline_off_cmd': BASE, 'source_commits': [], 'add_only': True},
         'engines': [{'name': 'fips204-solver-checks', 'path': '/verif/check', 'serves_properties': sorted(claimed), 'kind_free_text': 'E1: Kani 0.68 / CBMC 6.11 harnesses compiled into a scratch copy of the crate; E2: own MIR->SMT translator (lib/e2.py) on the nightly MIR dump of the scratch copy, z3 5.1 with z3 4.8.12 cross-check; native replay of every counterexample'}],
         'checks': checks,
         'not_applicable': na,
         'notes': 'Genuine defects found and repaired are listed in /verif/known_findings.json (fixed: entries; they suppress nothing). Exit 2 = inconclusive (timeout, OOM, translator refusal, non-reproducing counterexample).'}
    json.dump(m, open(os.path.join(HERE, 'MANIFEST.json'), 'w'), indent=1)
    print('claimed', sorted(claimed), 'n/a', [x['property_id'] for x in na])
main()
