"""C15 — coefficient arithmetic is exact on its whole domain.

E2 (real MIR -> SMT) decides every scalar kernel over its whole documented domain, including every
overflow / debug_assert obligation of the checked build; E1 (Kani) decides the same statements on the
compiled code; the verdicts are diffed.  Translator validation pushes concrete inputs through the native
functions and through the encoding."""
import json
import random
import re
import z3
import e2
import mir
import vlib
import spec_smt as S
from e2run import E2Session, merged, run_scalar_cases
from vlib import Harness

LEVEL = 'proof'
Q = S.Q
R32 = 2143289344
TRUSTED = ['rustc nightly MIR dump (-Zunpretty=mir) is the MIR rustc compiles', 'E2 translator (validated per run against the native functions on seeded inputs)',
           'z3 5.1.0 (cross-checked by z3 4.8.12 on the SMT-LIB text)', 'Kani 0.68 / CBMC 6.11 + cadical for the E1 twin of each lemma',
           'spec formulas transcribed from FIPS 204 Algorithms 14, 15, 35-40, 49 and section 2.3 (mod+-)']


def bvv(name, ty):
    w, _ = e2.INT[ty]
    return e2.Val(z3.BitVec(name, w), ty)


def scalar_sat(sess, fname, argnames):
    """on_sat callback: replay a model natively through the real function"""
    def cb(name, vals, rec):
        args = [vals.get(a, 0) for a in argnames]
        sess.cases.append((fname, args, name))
    return cb


def e2_part(run, scr, sess, seed, tier='quick'):
    slow = tier == 'thorough'
    funcs = mir.parse(mir.dump(scr, checked=True))
    E = e2.Exec(funcs, mode='bv', params={'CTEST': False})
    enc = {}   # fname -> (input Vals, merged output Val)

    def need(fn):
        if fn not in funcs:
            run.inconclusive.append(f'E2: function {fn} not found in the MIR dump (anchor missing)')
            return False
        run.functions.append(f'MIR {fn}')
        return True

    # ---- partial_reduce32 / full_reduce32 / center_mod
    x = bvv('x', 'i32')
    pre32 = z3.And(x.t > -R32, x.t < R32)
    X = S.sx(x.t)
    for fn in ('partial_reduce32', 'full_reduce32', 'center_mod'):
        if not need(fn):
            continue
        res, obl = E.run(fn, [x])
        out = merged(E, res)
        enc[fn] = ([x], out)
        cb = scalar_sat(sess, fn, ['x'])
        sess.discharge_obligations(fn, obl, pre32, on_sat=cb, skip=(lambda f, m: (not slow) and m == 'center_mod output'))
        r = S.sx(out.t)
        if fn == 'partial_reduce32':
            sess.discharge(f'{fn}: result congruent to a mod q', z3.SRem(X - r, S.bv(Q)) != 0, pre=pre32, fn=fn, on_sat=cb)
            sess.discharge(f'{fn}: -q < result < q', z3.Not(z3.And(r > -Q, r < Q)), pre=pre32, fn=fn, on_sat=cb)
        elif fn == 'full_reduce32':
            # (congruent and in [0,q)) is the definition of a mod q; the monolithic form r == emod(a) costs 45 s of srem bit-blasting
            sess.discharge(f'{fn}: result congruent to a mod q', z3.SRem(X - r, S.bv(Q)) != 0, pre=pre32, fn=fn, on_sat=cb)
            sess.discharge(f'{fn}: 0 <= result < q', z3.Not(z3.And(r >= 0, r < Q)), pre=pre32, fn=fn, on_sat=cb)
        elif slow:
            sess.discharge(f'{fn}: result == a mod+- q', r != S.mod_pm(X, Q), pre=pre32, fn=fn, on_sat=cb, core=False)
        else:
            # quick tier: mod+- on the canonical representative (23-bit domain) composed with the full_reduce32 lemma above;
            # the monolithic 32-bit statement is decided by the E1 twin c15_center_mod
            t = z3.BitVec('t', 32)
            res2, obl2 = E.run(fn, [e2.Val(t, 'i32')])
            out2 = merged(E, res2)
            sess.discharge(f'{fn}: result == t mod+- q for canonical t in [0,q)', S.sx(out2.t) != S.mod_pm(S.sx(t), Q), pre=z3.And(t >= 0, t < Q), fn=fn)

    # ---- mont_reduce (split congruence: low 32 bits zero + exact shift + range)
    if need('mont_reduce'):
        a = bvv('a', 'i64')
        prem = z3.And(a.t >= -17996808479301632, a.t <= 17996808470921215)
        res, obl = E.run('mont_reduce', [a])
        out = merged(E, res)
        enc['mont_reduce'] = ([a], out)
        cb = scalar_sat(sess, 'mont_reduce', ['a'])
        sess.discharge_obligations('mont_reduce', obl, prem, on_sat=cb)
        r = out.t
        # witness t with a - t*q == r * 2^32: t = (a mod 2^32) * QINV mod 2^32 (sign-extended), the value FIPS 204 Alg. 49 uses
        t = z3.SignExt(32, z3.Extract(31, 0, a.t) * z3.BitVecVal(58728449, 32))
        d = a.t - t * Q
        sess.discharge('mont_reduce: (a - t*q) has its low 32 bits zero', z3.Extract(31, 0, d) != 0, pre=prem, fn='mont_reduce', on_sat=cb)
        sess.discharge('mont_reduce: result == (a - t*q) / 2^32 exactly (hence result * 2^32 == a mod q)', z3.SignExt(32, r) != (d >> 32), pre=prem, fn='mont_reduce', on_sat=cb)
        sess.discharge('mont_reduce: a - t*q does not overflow i64', z3.Not(z3.And(z3.BVMulNoOverflow(t, z3.BitVecVal(Q, 64), True), z3.BVMulNoUnderflow(t, z3.BitVecVal(Q, 64)),
                                                                              z3.BVSubNoOverflow(a.t, t * Q), z3.BVSubNoUnderflow(a.t, t * Q, True))), pre=prem, fn='mont_reduce', on_sat=cb)
        sess.discharge('mont_reduce: -q < result < q', z3.Not(z3.And(r < Q, r > -Q)), pre=prem, fn='mont_reduce', on_sat=cb)

    # ---- partial_reduce64 on the only shape its caller supplies (x << 32), mathematical-integer encoding
    if need('partial_reduce64'):
        EI = e2.Exec(funcs, mode='int')
        ai = e2.Val(z3.Int('a'), 'i64')
        xi = z3.Int('x')
        pre64 = z3.And(ai.t == xi * (1 << 32), xi > -67058539, xi < 67058539)
        res, obl = EI.run('partial_reduce64', [ai])
        out = merged(EI, res)
        enc['partial_reduce64'] = ([ai], out, EI)
        cb = lambda name, vals, rec: sess.cases.append(('partial_reduce64', [vals.get('x', 0) << 32], name))
        sess.discharge_obligations('partial_reduce64', obl, pre64, enc='int', on_sat=cb)
        r = out.t
        sess.discharge('partial_reduce64: result congruent to a mod q', (ai.t - r) % Q != 0, pre=pre64, enc='int', fn='partial_reduce64', on_sat=cb)
        sess.discharge('partial_reduce64: |result| < 2q', z3.Not(z3.And(r < 2 * Q, r > -2 * Q)), pre=pre64, enc='int', fn='partial_reduce64', on_sat=cb)

    # ---- decompose / high_bits / low_bits / make_hint / use_hint
    r = bvv('r', 'i32'); z = bvv('z', 'i32'); h = bvv('h', 'i32')
    Rr = S.sx(r.t); Zz = S.sx(z.t)
    for g2 in (S.G44, S.G65):
        g = E.const(g2, 'i32')
        zq = z3.And(r.t >= 0, r.t < Q)
        if need('decompose'):
            res, obl = E.run('decompose', [g, r])
            out = merged(E, res)
            enc[f'decompose@{g2}'] = ([r], out)
            cb = lambda name, vals, rec, g2=g2: sess.cases.append(('decompose', [g2, vals.get('r', 0)], name))
            s1, s0 = S.decompose(g2, Rr)
            full = z3.And(r.t > -R32, r.t < R32)
            sess.discharge_obligations(f'decompose(gamma2={g2})', obl, full if slow else zq, on_sat=cb, core=not slow)
            sess.discharge(f'decompose(gamma2={g2}) == Alg.36 for every r in Z_q', z3.Or(S.sx(out.t[0].t) != s1, S.sx(out.t[1].t) != s0), pre=zq, fn='decompose', on_sat=cb)
            if slow:
                sess.discharge(f'decompose(gamma2={g2}) == Alg.36(r mod q) for every i32 r admitted by full_reduce32', z3.Or(S.sx(out.t[0].t) != s1, S.sx(out.t[1].t) != s0), pre=full, fn='decompose', on_sat=cb, core=False)
        for fn, idx in (('high_bits', 0), ('low_bits', 1)):
            if need(fn):
                res, obl = E.run(fn, [g, r])
                out = merged(E, res)
                enc[f'{fn}@{g2}'] = ([r], out)
                cb = lambda name, vals, rec, g2=g2, fn=fn: sess.cases.append((fn, [g2, vals.get('r', 0)], name))
                sess.discharge(f'{fn}(gamma2={g2}) == Alg.{37 + idx}', S.sx(out.t) != S.decompose(g2, Rr)[idx], pre=zq, fn=fn, on_sat=cb)
        if need('make_hint'):
            res, obl = E.run('make_hint', [g, z, r])
            out = merged(E, res)
            enc[f'make_hint@{g2}'] = ([z, r], out)
            # the only caller passes z = Q - ct0 (ct0 in [0,q)) and r = partial_reduce32(..) in (-q, q)
            prem = z3.And(z.t >= 1, z.t <= Q, r.t > -Q, r.t < Q)
            cb = lambda name, vals, rec, g2=g2: sess.cases.append(('make_hint', [g2, vals.get('z', 0), vals.get('r', 0)], name))
            sess.discharge_obligations(f'make_hint(gamma2={g2})', obl, prem, on_sat=cb)
            sess.discharge(f'make_hint(gamma2={g2}) == Alg.39 on the caller shape', out.t != S.make_hint(g2, Zz, Rr), pre=prem, fn='make_hint', on_sat=cb)
        if need('use_hint'):
            res, obl = E.run('use_hint', [g, h, r])
            out = merged(E, res)
            enc[f'use_hint@{g2}'] = ([h, r], out)
            preu = z3.And(zq, z3.Or(h.t == 0, h.t == 1))
            cb = lambda name, vals, rec, g2=g2: sess.cases.append(('use_hint', [g2, vals.get('h', 0), vals.get('r', 0)], name))
            sess.discharge_obligations(f'use_hint(gamma2={g2})', obl, preu, on_sat=cb)
            sess.discharge(f'use_hint(gamma2={g2}) == Alg.40', S.sx(out.t) != S.use_hint(g2, S.sx(h.t), Rr), pre=preu, fn='use_hint', on_sat=cb)

    # ---- CoeffFromThreeBytes / CoeffFromHalfByte
    if need('coeff_from_three_bytes'):
        b = [bvv(f'b{i}', 'u8') for i in range(3)]
        res, obl = E.run('coeff_from_three_bytes', [e2.Val(tuple(b), 'array')])
        out = merged(E, res)
        enc['coeff_from_three_bytes'] = (b, out)
        cb = lambda name, vals, rec: sess.cases.append(('coeff_from_three_bytes', [vals.get(f'b{i}', 0) & 255 for i in range(3)], name))
        zz = z3.ZeroExt(56, b[0].t) + (z3.ZeroExt(56, b[1].t) << 8) + (z3.ZeroExt(56, b[2].t & 0x7F) << 16)
        sess.discharge_obligations('coeff_from_three_bytes', obl, z3.BoolVal(True), on_sat=cb)
        ok = out.t == 0
        sess.discharge('coeff_from_three_bytes == Alg.14 (accept iff z < q, value z)', z3.Or(ok != (zz < Q), z3.And(ok, S.sx(out.meta[0][0].t) != zz)), fn='coeff_from_three_bytes', on_sat=cb)
    if need('coeff_from_half_byte'):
        bb = bvv('b', 'u8')
        for eta in (2, 4):
            res, obl = E.run('coeff_from_half_byte', [E.const(eta, 'i32'), bb])
            out = merged(E, res)
            enc[f'coeff_from_half_byte@{eta}'] = ([bb], out)
            preb = z3.ULT(bb.t, 16)
            cb = lambda name, vals, rec, eta=eta: sess.cases.append(('coeff_from_half_byte', [eta, vals.get('b', 0) & 255], name))
            B = z3.ZeroExt(56, bb.t)
            if eta == 2:
                acc = B < 15; val = 2 - z3.SRem(B, S.bv(5))
            else:
                acc = B < 9; val = 4 - B
            sess.discharge_obligations(f'coeff_from_half_byte(eta={eta})', obl, preb, on_sat=cb)
            ok = out.t == 0
            sess.discharge(f'coeff_from_half_byte(eta={eta}) == Alg.15', z3.Or(ok != acc, z3.And(ok, S.sx(out.meta[0][0].t) != val)), pre=preb, fn='coeff_from_half_byte', on_sat=cb)

    # ---- Power2Round: the two per-coefficient closures of the real power2round
    p2 = [n for n in funcs if n.startswith('power2round::{closure#') and n.endswith('::{closure#0}')]
    def ncaps(n):      # number of captured variables of a closure (by its debug entries that project out of the environment)
        return len([p_ for p_ in funcs[n].debug if p_.startswith('(*(') and 'R; K]' in p_])
    cA = [n for n in p2 if ncaps(n) == 1 and funcs[n].ret == 'i32' and not any('contains' in l for ls in funcs[n].blocks.values() for l in ls)]
    cB = [n for n in p2 if ncaps(n) == 2 and funcs[n].ret == 'i32']
    if len(cA) == 1 and len(cB) == 1:
        run.functions += ['MIR ' + cA[0], 'MIR ' + cB[0]]
        EP = e2.Exec(funcs, params={'K': 1})
        n = bvv('n', 'usize')
        resA, oblA = EP.run(cA[0], [None, n])
        r1 = merged(EP, resA)
        def rcaps(n_):      # names of the captured coefficient arrays in environment order (first: r, second: the r1 vector)
            out_ = []
            for pl, nm in funcs[n_].debug.items():
                mm_ = re.match(r'^\(\*\(\(\*_1\)\.(\d+): &\[(?:types::)?R; K\]\)\)$', pl)
                if mm_:
                    out_.append((int(mm_.group(1)), nm))
            return [nm for _, nm in sorted(out_)]
        capA, capB = rcaps(cA[0]), rcaps(cB[0])
        nA = capA[0] if capA else 'r'; nB0 = capB[0] if capB else 'r'; nB1 = capB[1] if len(capB) > 1 else 'r_1'
        rin = [v for k, v in EP.inputs.items() if k.startswith(nA + '[') and k.endswith('[n]')]
        EP2 = e2.Exec(funcs, params={'K': 1})
        resB, oblB = EP2.run(cB[0], [None, n])
        r0 = merged(EP2, resB)
        rinB = [v for k, v in EP2.inputs.items() if k.startswith(nB0 + '[') and k.endswith('[n]')]
        r1B = [v for k, v in EP2.inputs.items() if k.startswith(nB1 + '[') and k.endswith('[n]')]
        if len(rin) == 1 and len(rinB) == 1 and len(r1B) == 1:
            rv = rin[0].t
            prep = z3.And(rv >= 0, rv < Q, z3.ULT(n.t, 256), *[v.t == 0 for k, v in list(EP.inputs.items()) + list(EP2.inputs.items()) if k == 'k'])
            link = z3.And(rinB[0].t == rv, r1B[0].t == r1.t)
            s1, s0 = S.power2round(S.sx(rv))
            sess.discharge_obligations('power2round r1-closure', oblA, prep)
            sess.discharge_obligations('power2round r0-closure', oblB, z3.And(prep, link))
            sess.discharge('power2round closures == Alg.35 for every r in Z_q', z3.Or(S.sx(r1.t) != s1, S.sx(r0.t) != s0), pre=z3.And(prep, link), fn='power2round')
        else:
            run.inconclusive.append('power2round closures: unexpected input shape ' + str(list(EP.inputs) + list(EP2.inputs)))
    else:
        run.inconclusive.append(f'power2round: per-coefficient closures not identified (anchor) A={cA} B={cB}')
    return funcs, enc


def translator_validation(run, scr, enc, seed, n_per_fn):
    """push concrete inputs through the native functions and through the encodings"""
    rnd = random.Random(seed * 7919 + 15)
    cases = []
    def r32():
        return rnd.choice([rnd.randint(-R32 + 1, R32 - 1), rnd.randint(-3 * Q, 3 * Q), rnd.choice([0, 1, -1, Q, -Q, Q - 1, (Q - 1) // 2, (Q + 1) // 2, R32 - 1, -R32 + 1])])
    def rq():
        return rnd.choice([rnd.randint(0, Q - 1), rnd.choice([0, 1, Q - 1, Q - 2, (Q - 1) // 2, 8285185, 8118529, 4190208, 4190209])])
    plan = []
    for _ in range(n_per_fn):
        plan += [('partial_reduce32', [r32()]), ('full_reduce32', [r32()]), ('center_mod', [r32()]),
                 ('mont_reduce', [rnd.randint(-17996808479301632, 17996808470921215)]),
                 ('partial_reduce64', [rnd.randint(-67058538, 67058538) << 32])]
        for g2 in (S.G44, S.G65):
            plan += [('decompose', [g2, rq()]), ('high_bits', [g2, rq()]), ('low_bits', [g2, rq()]),
                     ('make_hint', [g2, rnd.randint(1, Q), rnd.randint(-Q + 1, Q - 1)]), ('use_hint', [g2, rnd.randint(0, 1), rq()])]
        plan += [('coeff_from_three_bytes', [rnd.randint(0, 255), rnd.choice([rnd.randint(0, 255), 0xE0, 0xDF]), rnd.choice([rnd.randint(0, 255), 0x7F, 0xFF])]),
                 ('coeff_from_half_byte', [rnd.choice([2, 4]), rnd.randint(0, 15)])]
    native, oc, out = run_scalar_cases(scr, plan)
    if oc == 'error' or not native:
        run.inconclusive.append('translator validation: native evaluation failed to build/run: ' + out[-800:])
        return 0, 0
    mismatches = []
    checked = 0
    for name, args in plan:
        key = name
        if name in ('decompose', 'high_bits', 'low_bits', 'make_hint', 'use_hint'):
            key = f'{name}@{args[0]}'
            ins_vals = args[1:]
        elif name == 'coeff_from_half_byte':
            key = f'{name}@{args[0]}'
            ins_vals = args[1:]
        else:
            ins_vals = args
        if key not in enc:
            continue
        ent = enc[key]
        ins, outv = ent[0], ent[1]
        sub = []
        for iv, val in zip(ins, ins_vals):
            if z3.is_int(iv.t):
                sub.append((iv.t, z3.IntVal(val)))
            else:
                sub.append((iv.t, z3.BitVecVal(val, iv.t.size())))
        def ev(v):
            t = z3.simplify(z3.substitute(v.t, *sub))
            if z3.is_bv_value(t):
                w, sg = e2.INT[v.ty]
                return t.as_signed_long() if sg else t.as_long()
            if z3.is_int_value(t):
                return t.as_long()
            if z3.is_true(t):
                return 1
            if z3.is_false(t):
                return 0
            return None
        if isinstance(outv, e2.Enum):
            d = ev(e2.Val(outv.t, 'isize'))
            got = 'E' if d != 0 else str(ev(outv.meta[0][0]))
        elif isinstance(outv.t, tuple):
            got = ' '.join(str(ev(x)) for x in outv.t)
        else:
            got = str(ev(outv))
        nat = native.get((name, tuple(args)))
        checked += 1
        if nat is None or nat[0] != got:
            mismatches.append((name, args, got, nat))
    if mismatches:
        run.inconclusive.append(f'translator validation: {len(mismatches)} mismatch(es) between the encoding and the native function, e.g. {mismatches[:3]}')
    bad_native = [(k, v) for k, v in native.items() if not v[1]]
    return checked, len(mismatches), bad_native


def e1_harnesses(tier):
    names = ['c15_partial_reduce32', 'c15_full_reduce32', 'c15_center_mod', 'c15_decompose_zq', 'c15_decompose_i32', 'c15_make_hint',
             'c15_use_hint', 'c15_coeff_from_three_bytes', 'c15_coeff_from_half_byte', 'c15_mont_reduce_range', 'c15_power2round']
    hs = []
    if tier != 'thorough':
        names.remove('c15_power2round')   # 10 min of symbolic execution; the E2 closure lemma decides Power2Round in the quick tier
    for n in names:
        hs.append(Harness('verif_kani::c15::' + n, 'C15', timeout=900 if n != 'c15_power2round' else 1500,
                          bounds='whole documented input domain (no bound)' if n != 'c15_power2round' else 'K=1, one symbolic coefficient at a symbolic position, loops of 256 unwound with unwinding assertions'))
    return hs


def run(run, scr, tier, seed, only=None):
    sess = E2Session(run, scr, tier)
    run.assumptions += TRUSTED + ['stub (E1 c15_power2round only): zeroize barrier, <R as Drop>::drop',
                                  'partial_reduce64 is decided on inputs x<<32, |x| < 67058539 (the only shape to_mont supplies; property text)',
                                  'make_hint is decided on the shape its only caller supplies: z in [1,q], r in (-q,q)']
    funcs, enc = e2_part(run, scr, sess, seed, tier)
    nval = 60 if tier == 'quick' else 600
    tv = translator_validation(run, scr, enc, seed, nval)
    run.extra['translator_validation'] = {'inputs_compared': tv[0], 'mismatches': tv[1]}
    vlib.log(f'  [E2] translator validation: {tv[0]} native/encoding comparisons, {tv[1]} mismatches')
    # native property failures found while validating count as violations too
    if len(tv) > 2 and tv[2]:
        for (name, args), (got, _) in tv[2][:3]:
            path = vlib.save_replay('C15', name, {'property': 'C15', 'kind': 'scalar', 'cases': [[name, list(args)]]})
            run.violation(f'{name}', f'{name}{list(args)} = {got} violates its specification (found during translator validation)', path)
    # E1 twin
    hs = e1_harnesses(tier)
    if only:
        hs = [h for h in hs if any(o in h.name for o in only)]
    results = vlib.run_kani(scr, hs, jobs=8)
    run.add_kani_results(results)
    for r in results:
        if r.status == 'failed':
            # extract the counterexample and replay it natively
            vals, out = vlib.kani_playback_values(scr, r.h)
            fn = r.h.name.split('::')[-1].replace('c15_', '')
            run.inconclusive.append(f'E1 {r.h.name} failed: {r.failed[:2]} (playback values {vals[:6] if vals else None}); see E2 replay of the same lemma')
    # replay E2 counterexamples natively (dev and release)
    if sess.cases:
        cases = [(n, a) for n, a, _ in sess.cases]
        for rel in (False, True):
            native, oc, out = run_scalar_cases(scr, cases, release=rel)
            for (n, a, q) in sess.cases:
                got = native.get((n, tuple(a)))
                if got is not None and not got[1]:
                    path = vlib.save_replay('C15', n, {'property': 'C15', 'kind': 'scalar', 'cases': [[n, list(a)]], 'query': q, 'profile': 'release' if rel else 'dev', 'native_result': got[0]})
                    run.violation(n, f'{n}{list(a)} returns {got[0]} ({"release" if rel else "dev"} profile), violating: {q}', path)
                elif got is None:
                    run.inconclusive.append(f'replay of {n}{a} did not run')
        # models that do not reproduce natively mean the encoding is wrong
        if not run.violations:
            run.inconclusive.append('E2 returned counterexamples that do not reproduce natively: ' + str(sess.cases[:3]))
    run.samples = [{'obligation': q.get('name') or q.get('harness'), 'verdict': q.get('verdict'), 'solver_s': q.get('solver_s')} for q in run.queries[:12]]
    run.extra['cross_checked_queries'] = sess.ncross
    run.extra['bounds'] = ['no bound: every obligation ranges over the whole documented input domain of the kernel (all i32 in (-2143289344, 2143289344), all i64 in mont_reduce\'s documented interval, all r in Z_q, all 2^24 byte triples, all half bytes)',
                           'partial_reduce64: inputs x << 32 with |x| < 67058539 (the only shape its caller supplies)', 'make_hint: z in [1, q], r in (-q, q) (the only shape its caller supplies)',
                           'quick tier: center_mod and decompose over the full i32 range are decided by the E1 twins; E2 decides them on Z_q / canonical representatives']
    return run.finish(
        rule='one SMT query per obligation (functional equality with the FIPS 204 formula, range, congruence, each overflow/debug_assert site) over the whole input domain of each kernel; '
             'non-trivial = distinct obligation decided unsat by the solver (E2) or harness verified with all covers satisfied (E1)',
        checker_cmd='./check C15 (python3-vt lib/e2.py on `cargo +nightly rustc -- -Zunpretty=mir` of the scratch copy; z3 5.1 + /usr/bin/z3 4.8.12; cargo kani for the E1 twins)',
        trusted_base=TRUSTED)


def replay(run, scr, path):
    p = json.load(open(path))
    cases = [(n, a) for n, a in p['cases']]
    bad = 0
    for rel in (False, True):
        native, oc, out = run_scalar_cases(scr, cases, release=rel)
        vlib.log(f'replay ({"release" if rel else "dev"}): {native}')
        bad += sum(1 for v in native.values() if not v[1])
        if oc == 'error':
            return 2
    if bad:
        vlib.log(f'VIOLATION property=C15 replay={path}')
        return 1
    return 0
