"""C02 — verification accepts exactly what FIPS 204 Verify accepts (translation validation against Algorithms 3, 5, 8)."""
import vlib
from props import skelprops, wrapc

LEVEL = 'translation_validation'


def run(run, scr, tier, seed, only=None):
    run.assumptions += skelprops.TRUSTED + ['decoders (sigDecode, HintBitUnpack, BitUnpack) against Algorithms 19, 21, 27: C08', 'scalar kernels (UseHint, norms, reductions): C15', 'no overflow / congruence of the NTT pipeline for adversarial z: C18']
    e1 = wrapc.harnesses(['verify'], 'C02')
    skelprops.run_prop(run, scr, tier, seed, 'C02', e1=e1, diff=('verify',), diff_load=(2, 8), only=only)
    run.extra['programs_pairs'] = 'verify_internal MIR vs Algorithm 8; verify / hash_verify / _internal_verify wrappers vs Algorithms 3 and 5'
    return run.finish(
        rule='obligations: (i) on every path of verify_internal the sequence of calls and the provenance of every argument equal Algorithm 8 (unification of the MIR dataflow skeleton with the transcribed algorithm, for the three message formattings); '
             '(ii) the return value is equivalent to [[||z|| < gamma1 - beta]] and [[c~ = c~\']] (SMT); (iii) per-coefficient closures equal the FIPS formulas for every coefficient value (SMT on the closure MIR); (iv) wrappers (Kani)',
        checker_cmd='./check C02', trusted_base=skelprops.TRUSTED)


def replay(run, scr, path):
    return skelprops.replay_diff('C02', scr, path)
