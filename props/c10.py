"""C10 — malformed private keys are rejected at deserialisation."""
import json
import os
import vlib
from vlib import Harness

LEVEL = 'model_checking'
TRUSTED = ['rustc/Kani 0.68 MIR->GOTO lowering', 'CBMC 6.11 + cadical', 'stub: zeroize::optimization_barrier -> no-op',
           'stub: <R as Drop>::drop -> no-op (zeroisation is C16)']


def replay_source(eta, v):
    n = len(v)
    c = 3 if eta == 2 else 4
    mod = 'ml_dsa_44' if eta == 2 else 'ml_dsa_65'
    arr = ', '.join(str(b) for b in v)
    return f'''
extern crate std;
use crate::traits::{{KeyGen, SerDes}};
#[path = "{vlib.VERIF}/kani/spec.rs"]
mod spec;
#[test]
fn c10_replay() {{
    let v: [u8; {n}] = [{arr}];
    let mut good = true;
    for i in 0..256 {{ good &= spec::field(&v, {c}, i) <= {2 * eta}; }}
    // kernel level: the real bit_unpack
    let kernel_ok = crate::conversion::bit_unpack(&v, {eta}, {eta}).is_ok();
    // public API level: splice the section into the s1[0] slot of an honestly generated private key
    let (_pk, sk) = crate::{mod}::KG::keygen_from_seed(&[7u8; 32]);
    let mut b = sk.into_bytes();
    b[128..128 + {n}].copy_from_slice(&v);
    let api_ok = crate::{mod}::PrivateKey::try_from_bytes(b).is_ok();
    std::println!("section all-in-range={{good}} bit_unpack.is_ok()={{kernel_ok}} try_from_bytes.is_ok()={{api_ok}}");
    assert!(kernel_ok == good && api_ok == good, "VERIF-PROPERTY-VIOLATED C10: acceptance differs from 'every eta-field in range'");
}}
'''


def do_replay(run, scr, eta, v):
    src = replay_source(eta, v)
    res = {}
    for rel in (False, True):
        oc, out = vlib.native_test(scr, src, 'c10_replay', release=rel)
        res['release' if rel else 'dev'] = oc
        if oc == 'error':
            vlib.log(out[-1500:])
    return res, src


def run(run, scr, tier, seed, only=None):
    hs = [
        Harness('verif_kani::c10::c10_bit_unpack_eta2', 'C10', timeout=1500, bounds='all 2^768 byte strings of one eta=2 section; coefficient index symbolic; loops 96x / 256x unwound with unwinding assertions'),
        Harness('verif_kani::c10::c10_bit_unpack_eta4', 'C10', timeout=1500, bounds='all 2^1024 byte strings of one eta=4 section; coefficient index symbolic'),
    ]
    if only:
        hs = [h for h in hs if any(o in h.name for o in only)]
    run.functions += ['src/conversion.rs::bit_unpack (a=b=eta in {2,4})', 'src/helpers.rs::is_in_range']
    run.assumptions += TRUSTED + ['sk_decode applies bit_unpack(eta,eta) section by section with no other acceptance test on s1/s2 (E2 skeleton of sk_decode in C09/C08)']
    # E2: sk_decode hands every s1 / s2 section to bit_unpack with (eta, eta) (and t0 with (2^12 - 1, 2^12)), all three sets
    import mir, layout, e2
    lres = []
    try:
        layout.run(mir.parse(mir.dump(scr, checked=True)), lres)
        run.functions.append('MIR sk_decode (section layout and range parameters per parameter set, loop index symbolic)')
    except e2.Refuse as ex:
        run.inconclusive.append('layout obligations: translator refused: ' + str(ex))
    lbad = []
    for r in lres:
        if 'C10' not in r['tags']:
            continue
        run.add_query({'name': r['name'], 'engine': 'E2 skeleton + SMT', 'verdict': 'holds' if r['verdict'] == 'holds' else ('sat' if r['verdict'] == 'mismatch' else 'unknown'), 'detail': r['detail'][:300]})
        if r['verdict'] == 'mismatch':
            lbad.append(r)
        elif r['verdict'] == 'refused':
            run.inconclusive.append(r['name'] + ': ' + r['detail'][:200])
    res_s, msgs_s = slots_native(scr)
    run.add_query({'name': 'native workload: every s1/s2 slot x out-of-range field value x {first, middle, last} coefficient through PrivateKey::try_from_bytes (all sets)', 'engine': 'native (confirmation workload)', 'verdict': 'holds' if set(res_s.values()) == {'pass'} else 'sat', 'detail': msgs_s[:3], 'trivial': True}, core=False)
    if lbad:
        path = vlib.save_replay('C10', 'slots', {'property': 'C10', 'kind': 'c10_slots', 'mismatches': [(r['name'], r['detail']) for r in lbad], 'native': res_s, 'msgs': msgs_s[:6]})
        if 'fail' in res_s.values():
            run.violation('sk_decode-sections', f'{lbad[0]["name"]}: {lbad[0]["detail"][:250]}; native: {msgs_s[:3]}', path)
        else:
            run.inconclusive.append(f'sk_decode layout obligation fails but the native slot workload passes: {lbad[0]["detail"][:200]}')
    elif 'fail' in res_s.values():
        path = vlib.save_replay('C10', 'slots', {'property': 'C10', 'kind': 'c10_slots', 'native': res_s, 'msgs': msgs_s[:6]})
        run.violation('sk-acceptance-native', f'private-key acceptance wrong: {msgs_s[:3]} {res_s}', path)
    results = vlib.run_kani(scr, hs)
    run.add_kani_results(results)
    for r in results:
        if r.status != 'failed':
            continue
        eta = 2 if 'eta2' in r.h.name else 4
        vals, out = vlib.kani_playback_values(scr, r.h)
        if not vals:
            run.inconclusive.append(f'{r.h.name}: failed but no concrete playback values')
            continue
        n = 96 if eta == 2 else 128
        v = b''.join(vals)[:n]  # a [u8; n] arrives as n one-byte values
        rep, src = do_replay(run, scr, eta, v)
        what = f'bit_unpack(v,{eta},{eta}) / PrivateKey::try_from_bytes acceptance differs from the FIPS range rule; section={v.hex()} failed_checks={[d for _, d, _ in r.failed]}'
        path = vlib.save_replay('C10', f'eta{eta}', {'property': 'C10', 'kind': 'c10_section', 'eta': eta, 'section_hex': v.hex(), 'native': rep, 'failed_checks': r.failed})
        if rep.get('dev') == 'fail' or rep.get('release') == 'fail':
            run.violation(f'bit_unpack-eta{eta}-range', what + f' native={rep}', path)
        else:
            run.inconclusive.append(f'{r.h.name}: counterexample did not reproduce natively ({rep})')
    run.samples = [{'harness': r.h.name, 'verdict': r.status, 'covers': r.covers[:4]} for r in results]
    return run.finish(
        rule='one query per (eta) decides acceptance of bit_unpack for every byte string of the section and the decoded value at a symbolic index; non-trivial = verdict reached with all cover witnesses satisfied',
        checker_cmd='cargo kani -Z stubbing --harness verif_kani::c10::* (scratch copy of /repo with /verif/kani injected)',
        trusted_base=TRUSTED)


def slots_native(scr):
    src = open(os.path.join(vlib.VERIF, 'replay', 'c10_slots.rs')).read()
    res = {}; msgs = []
    for rel in (False, True):
        oc, out = vlib.native_test(scr, src, 'c10_all_slots', release=rel)
        res['release' if rel else 'dev'] = oc
        msgs += [l.strip() for l in out.splitlines() if l.startswith('C10 ') or 'VERIF-PROPERTY' in l][:6]
        if oc == 'error':
            msgs.append(out[-600:])
    return res, msgs


def replay(run, scr, path):
    p = json.load(open(path))
    if p.get('kind') == 'c10_slots':
        res, msgs = slots_native(scr)
        vlib.log(f'replay {path}: {res} {msgs[:3]}')
        if 'fail' in res.values():
            vlib.log(f'VIOLATION property=C10 replay={path}')
            return 1
        return 0 if set(res.values()) == {'pass'} else 2
    rep, src = do_replay(run, scr, p['eta'], bytes.fromhex(p['section_hex']))
    vlib.log(f'replay {path}: {rep}')
    if 'fail' in rep.values():
        vlib.log(f'VIOLATION property=C10 replay={path}')
        return 1
    return 0 if set(rep.values()) == {'pass'} else 2
