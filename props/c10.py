"""C10 — malformed private keys are rejected at deserialisation."""
import json
import os
import vlib
from vlib import Harness

LEVEL = 'model_checking'
TRUSTED = ['rustc/Kani 0.68 MIR->GOTO lowering', 'CBMC 6.11 + cadical', 'stub: zeroize::optimization_barrier -> no-op',
           'stub: <R as Drop>::drop -> no-op (zeroisation is C16)']


def replay_source(eta, v):
    n = len(v)
    c = 3 if eta == 2 else 4
    mod = 'ml_dsa_44' if eta == 2 else 'ml_dsa_65'
    arr = ', '.join(str(b) for b in v)
    return f'''
extern crate std;
use crate::traits::{{KeyGen, SerDes}};
#[path = "{vlib.VERIF}/kani/spec.rs"]
mod spec;
#[test]
fn c10_replay() {{
    let v: [u8; {n}] = [{arr}];
    let mut good = true;
    for i in 0..256 {{ good &= spec::field(&v, {c}, i) <= {2 * eta}; }}
    // kernel level: the real bit_unpack
    let kernel_ok = crate::conversion::bit_unpack(&v, {eta}, {eta}).is_ok();
    // public API level: splice the section into the s1[0] slot of an honestly generated private key
    let (_pk, sk) = crate::{mod}::KG::keygen_from_seed(&[7u8; 32]);
    let mut b = sk.into_bytes();
    b[128..128 + {n}].copy_from_slice(&v);
    let api_ok = crate::{mod}::PrivateKey::try_from_bytes(b).is_ok();
    std::println!("section all-in-range={{good}} bit_unpack.is_ok()={{kernel_ok}} try_from_bytes.is_ok()={{api_ok}}");
    assert!(kernel_ok == good && api_ok == good, "VERIF-PROPERTY-VIOLATED C10: acceptance differs from 'every eta-field in range'");
}}
'''


def do_replay(run, scr, eta, v):
    src = replay_source(eta, v)
    res = {}
    for rel in (False, True):
        oc, out = vlib.native_test(scr, src, 'c10_replay', release=rel)
        res['release' if rel else 'dev'] = oc
        if oc == 'error':
            vlib.log(out[-1500:])
    return res, src


def run(run, scr, tier, seed, only=None):
    hs = [
        Harness('verif_kani::c10::c10_bit_unpack_eta2', 'C10', timeout=1500, bounds='all 2^768 byte strings of one eta=2 section; coefficient index symbolic; loops 96x / 256x unwound with unwinding assertions'),
        Harness('verif_kani::c10::c10_bit_unpack_eta4', 'C10', timeout=1500, bounds='all 2^1024 byte strings of one eta=4 section; coefficient index symbolic'),
    ]
    if only:
        hs = [h for h in hs if any(o in h.name for o in only)]
    run.functions += ['src/conversion.rs::bit_unpack (a=b=eta in {2,4})', 'src/helpers.rs::is_in_range']
    run.assumptions += TRUSTED + ['sk_decode applies bit_unpack(eta,eta) section by section with no other acceptance test on s1/s2 (E2 skeleton of sk_decode in C09/C08)']
    results = vlib.run_kani(scr, hs)
    run.add_kani_results(results)
    for r in results:
        if r.status != 'failed':
            continue
        eta = 2 if 'eta2' in r.h.name else 4
        vals, out = vlib.kani_playback_values(scr, r.h)
        if not vals:
            run.inconclusive.append(f'{r.h.name}: failed but no concrete playback values')
            continue
        n = 96 if eta == 2 else 128
        v = b''.join(vals)[:n]  # a [u8; n] arrives as n one-byte values
        rep, src = do_replay(run, scr, eta, v)
        what = f'bit_unpack(v,{eta},{eta}) / PrivateKey::try_from_bytes acceptance differs from the FIPS range rule; section={v.hex()} failed_checks={[d for _, d, _ in r.failed]}'
        path = vlib.save_replay('C10', f'eta{eta}', {'property': 'C10', 'kind': 'c10_section', 'eta': eta, 'section_hex': v.hex(), 'native': rep, 'failed_checks': r.failed})
        if rep.get('dev') == 'fail' or rep.get('release') == 'fail':
            run.violation(f'bit_unpack-eta{eta}-range', what + f' native={rep}', path)
        else:
            run.inconclusive.append(f'{r.h.name}: counterexample did not reproduce natively ({rep})')
    run.samples = [{'harness': r.h.name, 'verdict': r.status, 'covers': r.covers[:4]} for r in results]
    return run.finish(
        rule='one query per (eta) decides acceptance of bit_unpack for every byte string of the section and the decoded value at a symbolic index; non-trivial = verdict reached with all cover witnesses satisfied',
        checker_cmd='cargo kani -Z stubbing --harness verif_kani::c10::* (scratch copy of /repo with /verif/kani injected)',
        trusted_base=TRUSTED)


def replay(run, scr, path):
    p = json.load(open(path))
    rep, src = do_replay(run, scr, p['eta'], bytes.fromhex(p['section_hex']))
    vlib.log(f'replay {path}: {rep}')
    if 'fail' in rep.values():
        vlib.log(f'VIOLATION property=C10 replay={path}')
        return 1
    return 0 if set(rep.values()) == {'pass'} else 2
