"""C03 — signatures are byte-identical to FIPS 204 Sign for the drawn rnd (translation validation against Algorithms 2, 4, 7)."""
import vlib
from props import skelprops, wrapc

LEVEL = 'translation_validation'


def run(run, scr, tier, seed, only=None):
    run.assumptions += skelprops.TRUSTED + ['one iteration of the rejection loop from an arbitrary counter kappa (inductive step); kappa wrap-around after >= 65536/l rejections is outside the claim',
                                             'samplers (SampleInBall, ExpandMask, ExpandA) and encoders (sigEncode, w1Encode) are uninterpreted here; codecs: C08; coefficient kernels: C15']
    e1 = wrapc.harnesses(['sign', 'hash_sign'], 'C03')
    skelprops.run_prop(run, scr, tier, seed, 'C03', e1=e1, diff=('sign',), diff_load=(2, 300), only=only)
    return run.finish(
        rule='obligations: prefix of sign_internal (mu for the three formattings, rho\'\' = H(K||rnd||mu), kappa = 0), one loop iteration from an arbitrary kappa (call sequence and argument provenance equal Algorithm 7 lines 11-33, '
             'the three path classes are taken exactly under the FIPS rejection predicates and are exhaustive, kappa advances by l on both rejections), per-coefficient closures equal the FIPS formulas (SMT), wrappers (Kani)',
        checker_cmd='./check C03', trusted_base=skelprops.TRUSTED)


def replay(run, scr, path):
    return skelprops.replay_diff('C03', scr, path)
