"""C06 — signatures are bound to context, mode and pre-hash function: injectivity of the formatted message M'."""
import time
import z3
import vlib
from props import skelprops, wrapc

LEVEL = 'model_checking'
OIDS = {'SHA-256': ([6, 9, 0x60, 0x86, 0x48, 1, 0x65, 3, 4, 2, 1], 32), 'SHA-512': ([6, 9, 0x60, 0x86, 0x48, 1, 0x65, 3, 4, 2, 3], 64), 'SHAKE128': ([6, 9, 0x60, 0x86, 0x48, 1, 0x65, 3, 4, 2, 0x0B], 32)}


def format_lemmas(run, sess, funcs, suite):
    """the formatting shape extracted from the MIR (skeleton obligations) is  dom || len(ctx) || ctx || (M | OID || PH(M));
    its injectivity for |ctx| <= 255 is decided by z3's sequence theory, for byte strings of every length"""
    S = z3.SeqSort(z3.IntSort())
    U = z3.Unit
    def pure(c, m): return z3.Concat(U(z3.IntVal(0)), U(z3.Length(c)), c, m)
    def hashed(c, o, p): return z3.Concat(U(z3.IntVal(1)), U(z3.Length(c)), c, o, p)
    def lit(bs): return z3.Concat(*[U(z3.IntVal(b)) for b in bs])
    c1, c2, m1, m2, p1, p2 = [z3.Const(n, S) for n in ('c1', 'c2', 'm1', 'm2', 'p1', 'p2')]
    pre = [z3.Length(c1) <= 255, z3.Length(c2) <= 255]
    def chk(name, *f, expect='unsat'):
        s = z3.Solver(); s.set('timeout', sess.cap * 1000); s.add(*f)
        t = time.time(); r = s.check(); dt = time.time() - t
        v = 'unsat' if r == z3.unsat else ('sat' if r == z3.sat else 'unknown')
        ok = v == expect
        run.add_query({'name': name, 'engine': 'SMT (z3 sequence theory) over byte strings of unbounded length', 'verdict': ('unsat' if expect == 'unsat' else 'holds') if ok else v, 'solver_s': round(dt, 2), 'trivial': expect != 'unsat'}, core=expect == 'unsat')
        vlib.log(f'  [SMT] {name}: {v} ({dt:.2f}s)')
        if not ok:
            run.inconclusive.append(f'{name}: solver answered {v}, expected {expect}')
    chk('M\' (pure): equal formatted messages imply equal (ctx, M)', *pre, pure(c1, m1) == pure(c2, m2), z3.Or(c1 != c2, m1 != m2))
    chk('M\' pure vs pre-hash: never equal, whatever the message is crafted to be', *pre, z3.Or(*[pure(c1, m1) == hashed(c2, lit(o), p2) for o, _ in OIDS.values()]))
    for a, (oa, la) in OIDS.items():
        for b, (ob, lb) in OIDS.items():
            f = [*pre, z3.Length(p1) == la, z3.Length(p2) == lb, hashed(c1, lit(oa), p1) == hashed(c2, lit(ob), p2)]
            if a == b:
                chk(f'M\' (pre-hash {a}): equal formatted messages imply equal (ctx, PH(M))', *f, z3.Or(c1 != c2, p1 != p2))
            elif a < b:
                chk(f'M\' pre-hash {a} vs {b}: never equal', *f)
    # vacuity control: with the length byte taken mod 256 and a 256-byte context the encoding is NOT injective
    def wrapped(c, m): return z3.Concat(U(z3.IntVal(0)), U(z3.Length(c) % 256), c, m)
    chk('negative control: a wrapped length byte (|ctx| = 256 vs 0) gives a collision', z3.Length(c1) == 256, z3.Length(c2) == 0, wrapped(c1, m1) == wrapped(c2, m2), expect='sat')


def run(run, scr, tier, seed, only=None):
    run.assumptions += skelprops.TRUSTED + ['|ctx| <= 255 on every path that reaches Sign_internal / Verify_internal (C07), so the low byte of len(ctx) is len(ctx)',
                                             'OID constants and digest lengths per pre-hash function are decided on the real hash_message by the wrapper harnesses (assertions tagged C06)',
                                             'binding of the signature to M\' itself rests on SHAKE256 (oracle; outside the claim)']
    e1 = wrapc.harnesses(['hash_sign', 'verify'], 'C06')
    skelprops.run_prop(run, scr, tier, seed, 'C06', e1=e1, diff=('verify',), diff_load=(2, 8), extra=format_lemmas, only=only)
    return run.finish(
        rule='(i) skeleton obligations: the slices absorbed for mu by sign_internal and verify_internal are (tr, dom, len(ctx) byte, ctx, M | OID, PH(M)) in the three modes; (ii) SMT lemmas: that formatting is injective and the modes / pre-hash functions are pairwise disjoint, for all byte strings; (iii) Kani: OID / digest selection',
        checker_cmd='./check C06', trusted_base=skelprops.TRUSTED)


def replay(run, scr, path):
    return skelprops.replay_diff('C06', scr, path)
