"""C18 — NTT-based products equal the negacyclic product mod q, without 32-bit overflow.

E2 lemmas on the real MIR (mathematical-integer encoding, mont_reduce replaced by its separately proved
contract): forward / inverse butterfly from an arbitrary loop state with a *symbolic* magnitude bound B,
copy-in and final-scaling steps of inv_ntt, to_mont and mat_vec_mul per-coefficient closures; then the
range chain over every inv_ntt / to_mont call site of the crate (producers found by def-chain tracing in the
MIR).  A chain link that does not close is turned into a concrete input by a scalar solver query on the
real closures plus a template, and replayed natively through the real ntt -> mat_vec_mul -> inv_ntt."""
import json
import os
import re
import z3
import e2
import mir
import vlib
import lemmas as LM
from e2run import E2Session, merged

LEVEL = 'model_checking'
Q = LM.Q
I32MAX = (1 << 31) - 1
PR32_DOMAIN = 2143289343
TRUSTED = ['rustc nightly MIR dump', 'E2 translator (Int encoding; validated in C15 against native runs)', 'z3 5.1.0, cross-check z3 4.8.12',
           'pen-and-paper composition: Z_q-linearity of each butterfly (lemmas Bf/Bi) + agreement on the 256 basis vectors (concrete native premise) => transform equals FIPS 204 NTT; convolution theorem']
SETS = {'ml_dsa_44': dict(K=4, L=4, gamma1=1 << 17, eta=2), 'ml_dsa_65': dict(K=6, L=5, gamma1=1 << 19, eta=4), 'ml_dsa_87': dict(K=8, L=7, gamma1=1 << 19, eta=2)}


def butterfly(sess, run, funcs, fn):
    f = funcs[fn]
    nv = LM.ntt_vars(f)
    if not all(nv[k] for k in ('j', 'len', 'zeta', 'w_poly')):
        raise e2.Refuse(f'{fn}: butterfly locals not identified: {nv}')
    entry, head, opt = LM.loop_anchor(f, nv['j'])
    E = e2.Exec(funcs, mode='int', summaries={'mont_reduce': LM.mont_summary})
    E.mont_calls = []
    j = z3.Int('j'); ln = z3.Int('len'); zeta = z3.Int('zeta'); W = z3.Array('W', z3.IntSort(), z3.IntSort()); B = z3.Int('B')
    zty = f.locals[nv['zeta']]
    init = {opt: e2.Enum(z3.IntVal(1), {1: [e2.Val(j, 'usize')]}), nv['len']: e2.Val(ln, 'usize'),
            nv['zeta']: e2.Val(zeta, zty), nv['w_poly']: e2.Ref('W'), '@arrays': {'W.0': W}}
    res, obl = E.run(fn, [], start=entry, stop=(head,), init=init)
    run.functions.append(f'MIR {fn}: inner-loop body {entry}..back-edge to {head} (one iteration from an arbitrary state)')
    if len(res) != 1 or len(E.mont_calls) != 1:
        raise e2.Refuse(f'{fn}: butterfly segment has {len(res)} paths / {len(E.mont_calls)} mont_reduce calls')
    a = z3.Select(W, j); b = z3.Select(W, j + ln)
    lens = z3.Or(*[ln == (1 << k) for k in range(8)])
    fwd = fn == 'ntt'
    zr = z3.And(zeta >= 0, zeta < Q) if fwd else z3.And(zeta > -Q, zeta <= 0)
    Bmax = I32MAX - Q if fwd else (1 << 30) - 1
    base = z3.And(lens, j >= 0, j < 256, j + ln < 256, zr, a >= -B, a <= B, b >= -B, b <= B, B >= 0, *E.summary_facts)
    pre = z3.And(base, B <= Bmax)
    tag = 'Bf' if fwd else 'Bi'
    # vacuity witness + negative control
    s = z3.Solver(); s.add(pre, B == Bmax)
    if s.check() != z3.sat:
        run.inconclusive.append(f'{tag}: precondition unsatisfiable (vacuous lemma)')
    sess.discharge_obligations(f'{tag}[{fn}] for every |w| <= B <= {Bmax}', obl, pre)
    ctrl = z3.unknown
    for o in obl:      # one small query per obligation (a single disjunctive query timed out under machine load)
        neg = z3.Solver(); neg.set('timeout', 120000); neg.add(base, B == (I32MAX if fwd else (1 << 30)), o['cond'])
        ctrl = neg.check()
        if ctrl == z3.sat:
            break
    run.add_query({'name': f'{tag}: negative control (B one past the admissible bound makes an overflow obligation satisfiable)', 'engine': 'E2 int', 'verdict': 'holds' if ctrl == z3.sat else 'unknown', 'trivial': True}, core=False)
    if ctrl != z3.sat:
        run.inconclusive.append(f'{tag}: negative control did not find the overflow just outside the bound (lemma may be vacuous)')
    (pc, st1), = res
    M1 = st1['@arrays']['W.0']; na = z3.Select(M1, j); nb = z3.Select(M1, j + ln)
    (arg, r), = E.mont_calls
    k = z3.Int('k')
    if fwd:
        sess.discharge('Bf: mont_reduce argument is exactly zeta * w[j+len]', arg != zeta * b, pre=pre, enc='int', fn=fn)
        sess.discharge('Bf: w\'[j] == w[j] + t and w\'[j+len] == w[j] - t', z3.Or(na != a + r, nb != a - r), pre=pre, enc='int', fn=fn)
        sess.discharge('Bf: |outputs| <= B + ((q-1)B + 2^31 q)/2^32', z3.Not(z3.And(*[z3.And((x - y) * (1 << 32) <= (Q - 1) * B + (1 << 31) * Q, (x - y) * (1 << 32) >= -((Q - 1) * B + (1 << 31) * Q))
                                                                                  for x, y in ((na, a), (a, nb))])), pre=pre, enc='int', fn=fn)
    else:
        sess.discharge('Bi: mont_reduce argument is exactly zeta * (w[j] - w[j+len])', arg != zeta * (a - b), pre=pre, enc='int', fn=fn)
        sess.discharge('Bi: w\'[j] == w[j] + w[j+len] and w\'[j+len] == t', z3.Or(na != a + b, nb != r), pre=pre, enc='int', fn=fn)
        sess.discharge('Bi: |w\'[j]| <= 2B and |w\'[j+len]| < q', z3.Not(z3.And(na <= 2 * B, na >= -2 * B, nb < Q, nb > -Q)), pre=pre, enc='int', fn=fn)
    sess.discharge(f'{tag}: frame (no other coefficient changes)', z3.And(k != j, k != j + ln, z3.Select(M1, k) != z3.Select(W, k)), pre=pre, enc='int', fn=fn)
    # data independence: no branch discriminant / index of the segment depends on coefficient data
    tainted = 0
    for (fnm, bb, v) in E.branch_log:
        if not isinstance(v.t, tuple) and v.t is not None and hasattr(v.t, 'get_id'):
            if any(c == 'W' or c.startswith('mr!') or c.startswith('mk!') for c in LM.consts_of(v.t)):
                tainted += 1
    for (fnm, bb, v) in E.index_log:
        if hasattr(v.t, 'get_id') and any(c == 'W' or c.startswith('mr!') or c.startswith('mk!') for c in LM.consts_of(v.t)):
            tainted += 1
    run.add_query({'name': f'{tag}: control flow and indices of the butterfly do not depend on coefficient data', 'engine': 'E2 taint over symbolic terms',
                   'verdict': 'holds' if tainted == 0 else 'sat', 'branches': len(E.branch_log), 'indices': len(E.index_log)})
    if tainted:
        run.inconclusive.append(f'{tag}: {tainted} data-dependent branch/index terms in the butterfly')


def closure_run(funcs, name, mode='int', params=None, summaries=None, init=None, args=None):
    E = e2.Exec(funcs, mode=mode, params=params or {'K': 8, 'L': 7, 'KL': 8}, summaries=summaries or {'mont_reduce': LM.mont_summary})
    E.mont_calls = []
    n = e2.Val(z3.Int('n') if mode == 'int' else z3.BitVec('n', 64), 'usize')
    res, obl = E.run(name, args if args is not None else [None, n], init=init)
    out = merged(E, res)
    idx = [v.t for kname, v in E.inputs.items() if isinstance(v, e2.Val) and v.ty == 'usize' and not kname.startswith('param:') and not isinstance(v, (e2.Ref, e2.Opaque))]
    pre = [n.t >= 0, n.t < 256] if mode == 'int' else [z3.ULT(n.t, 256)]
    pre += [x == 0 for x in idx]
    return E, n, out, obl, res, pre


def coeff_inputs(E):
    """named per-coefficient i32 inputs of a closure run: {source-name: term}"""
    out = {}
    for kname, v in E.inputs.items():
        if isinstance(v, (e2.Ref, e2.Opaque)) or v.ty != 'i32':
            continue
        m = re.match(r'^(\w+)[\.\[]', kname)
        out[m.group(1) if m else kname] = v.t
    return out


def inv_ntt_steps(sess, run, funcs):
    """copy-in closure and final scaling of inv_ntt; returns the admissible input magnitude of inv_ntt"""
    name = 'inv_ntt::{closure#0}::{closure#0}'
    NEED0 = (1 << 23) - 1
    if name not in funcs:
        # no per-coefficient closure: the copy-in may be a whole-array copy `R(w_hat[x].0)`; accept exactly that shape (identity)
        import skel
        outer = 'inv_ntt::{closure#0}'
        if outer not in funcs:
            raise e2.Refuse('inv_ntt copy-in closure not found')
        Eo, po = skel.extract(funcs, outer, params={'KL': 8})
        rs = po[0].ret_s if len(po) == 1 else ''
        if len(po) == 1 and not po[0].rel() and re.match(r'^struct:(types::)?R\{0: mem:w_hat\[.*\]\.0\}$', rs):
            run.functions.append('MIR ' + outer + ' (whole-array copy-in, identity)')
            run.add_query({'name': f'inv_ntt copy-in is the identity (`{rs}`): admissible input magnitude is 2^23 - 1', 'engine': 'E2 skeleton', 'verdict': 'holds'})
            admissible = NEED0
            return _final_scaling(sess, run, funcs, admissible)
        raise e2.Refuse(f'inv_ntt copy-in closure has an unrecognised shape: {rs}')
    run.functions.append('MIR ' + name)
    NEED = (1 << 23) - 1       # 2^8 * B0 <= 2^31 - 1 (eight doubling layers, lemma Bi)
    admissible = None
    for cand in (PR32_DOMAIN, NEED):
        E, n, out, obl, res, pre = closure_run(funcs, name)
        ins = coeff_inputs(E)
        if list(ins) != ['w_hat']:
            raise e2.Refuse(f'inv_ntt copy-in closure reads {list(ins)}')
        x = ins['w_hat']
        p = z3.And(*pre, x >= -cand, x <= cand, *E.summary_facts)
        bad = z3.Or(z3.Or(*[o['cond'] for o in obl]) if obl else z3.BoolVal(False), out.t > NEED, out.t < -NEED, (out.t - x) % Q != 0)
        s = z3.Solver(); s.set('timeout', sess.cap * 1000); s.add(p, bad)
        r = s.check()
        if r == z3.unsat:
            admissible = cand
            sess.discharge(f'inv_ntt copy-in: for every |x| <= {cand}: no panic, |out| <= 2^23-1, out == x (mod q)', bad, pre=p, enc='int', fn=name)
            break
    if admissible is None:
        raise e2.Refuse('inv_ntt copy-in closure: no admissible input bound established')
    return _final_scaling(sess, run, funcs, admissible)


def _final_scaling(sess, run, funcs, admissible):
    # final scaling loop: *i = full_reduce32(mont_reduce(F_MONT * *i))
    f = funcs['inv_ntt']
    entry, head, opt = LM.loop_anchor(f, 'i', elem_ty='&mut i32')
    E = e2.Exec(funcs, mode='int', summaries={'mont_reduce': LM.mont_summary}); E.mont_calls = []
    x = z3.Int('x')
    init = {opt: e2.Enum(z3.IntVal(1), {1: [e2.Ref('cell', '&mut i32')]}), 'cell': e2.Val(x, 'i32')}
    res, obl = E.run('inv_ntt', [], start=entry, stop=(head,), init=init)
    run.functions.append(f'MIR inv_ntt: final scaling loop body {entry}..{head}')
    (pc, st1), = res
    y = st1['cell'].t
    (arg, r), = E.mont_calls
    p = z3.And(x >= -I32MAX - 1, x <= I32MAX, *E.summary_facts)
    sess.discharge_obligations('inv_ntt final scaling for every i32 coefficient', obl, p, enc='int')
    fv = z3.simplify(z3.substitute(arg, (x, z3.IntVal(1))))
    if not z3.is_int_value(fv):
        raise e2.Refuse('final scaling: multiplier is not a constant')
    F = fv.as_long()
    run.add_query({'name': f'inv_ntt final scaling constant F_MONT = {F} satisfies F_MONT * 256 == 2^32 (mod q)', 'engine': 'concrete (constant read from MIR)', 'verdict': 'holds' if (F * 256 - (1 << 32)) % Q == 0 else 'sat', 'trivial': True})
    if (F * 256 - (1 << 32)) % Q != 0:
        run.inconclusive.append(f'F_MONT = {F} is not 256^-1 * 2^32 mod q')
    sess.discharge('inv_ntt final scaling: result in [0,q), result == t (mod q) with t*2^32 == F_MONT*x (mod q)',
                   z3.Or(y < 0, y >= Q, arg != F * x, (y - r) % Q != 0), pre=p, enc='int', fn='inv_ntt')


    return admissible


def to_mont_lemma(sess, run, funcs):
    name = 'to_mont::{closure#0}::{closure#0}'
    run.functions.append('MIR ' + name + ' (partial_reduce64 inlined)')
    E, n, out, obl, res, pre = closure_run(funcs, name)
    ins = coeff_inputs(E)
    x = ins['vec_a']
    p = z3.And(*pre, x > -67058539, x < 67058539)
    def cb(qname, vals, rec):
        xv = next((v for k, v in vals.items() if k.startswith('in:vec_a')), 0)
        run.extra.setdefault('scalar_cases', []).append(['partial_reduce64', [int(xv) << 32], qname])
    sess.discharge_obligations('to_mont closure for every |x| < 67058539', obl, p, enc='int', on_sat=cb)
    sess.discharge('to_mont closure: |out| < 2q', z3.Or(out.t >= 2 * Q, out.t <= -2 * Q), pre=p, enc='int', fn=name, on_sat=cb)
    sess.discharge('to_mont closure: out == x * 2^32 (mod q)', (x * (1 << 32) - out.t) % Q != 0, pre=p, enc='int', fn=name, on_sat=cb)


def mat_vec_lemma(sess, run, funcs):
    name = 'mat_vec_mul::{closure#0}'
    run.functions.append('MIR ' + name)
    nn = z3.Int('n'); e0 = z3.Int('e')
    E = e2.Exec(funcs, mode='int', params={'K': 8, 'L': 7}, summaries={'mont_reduce': LM.mont_summary}); E.mont_calls = []
    arg = e2.Val((e2.Val(nn, 'usize'), e2.Ref('ecell', '&mut i32')), 'tuple')
    res, obl = E.run(name, [None, arg], init={'ecell': e2.Val(e0, 'i32')})
    (pc, out), = res[:1]
    ins = coeff_inputs(E)
    a = ins['a_hat']; u = ins['u_hat_mont']
    idx = [v.t for kname, v in E.inputs.items() if v.ty == 'usize' and not kname.startswith('param:') and not isinstance(v, (e2.Ref, e2.Opaque))]
    TB = LM.mr_bound((Q - 1) * (2 * Q - 1))
    Eb = z3.Int('E')
    p = z3.And(nn >= 0, nn < 256, *[i == 0 for i in idx], a >= 0, a < Q, u > -2 * Q, u < 2 * Q, e0 >= -Eb, e0 <= Eb, Eb >= 0, Eb <= I32MAX - TB, *E.summary_facts)
    sess.discharge_obligations('mat_vec_mul accumulate step', obl, p, enc='int')
    # final value of the cell: read from the state of the single path
    (a_arg, r), = E.mont_calls
    sess.discharge('mat_vec_mul step: product is a_hat[i][j][n] * u_hat_mont[j][n] and |term| <= q/2 + 2q^2/2^32 + 1',
                   z3.Or(a_arg != a * u, r > TB, r < -TB), pre=p, enc='int', fn=name)
    return TB


def zeta_premise(run, text):
    tbl = LM.parse_alloc_i32(text, 'ZETA_TABLE_MONT')
    ok = bool(tbl) and len(tbl) == 256
    if ok:
        for m in range(256):
            brv = int(f'{m:08b}'[::-1], 2)
            ok &= tbl[m] == (pow(1753, brv, Q) << 32) % Q
    run.add_query({'name': 'premise Z: ZETA_TABLE_MONT[m] == zeta^brv8(m) * 2^32 mod q for all m (constant evaluated by rustc, read from the MIR dump)', 'engine': 'concrete premise', 'verdict': 'holds' if ok else 'sat', 'trivial': True})
    if not ok:
        run.inconclusive.append('zeta table premise failed or table not found in the MIR dump')


RANGES_BY_NAME = {
    # captured variable -> (bound kind) ; every *_hat_mont field of a key struct is a to_mont output (|x| < 2q, lemma to_mont)
    'mont': lambda: 2 * Q - 1,
}


def producer_bound(sess, run, funcs, f, kind, TB, Ls, cache):
    """magnitude bound of the polynomial vector produced by `kind` (result of trace_producer) -> {set: bound} or None"""
    if kind[0] == 'call' and kind[1] == 'mat_vec_mul':
        return {s: SETS[s]['L'] * TB for s in SETS}, f'mat_vec_mul: sum of L terms each <= {TB}'
    if kind[0] == 'param' and f.name == 'mat_vec_mul':
        # u_hat of mat_vec_mul: bounded at mat_vec_mul's own call sites (second argument), checked by chain() below
        return {s: LM.ntt_out_bound(Q - 1) for s in SETS}, 'mat_vec_mul parameter u_hat: ntt output or mont_reduce output at every call site (checked separately)'
    if kind[0] == 'call' and kind[1] == 'ntt':
        b = LM.ntt_out_bound(Q - 1)
        return {s: b for s in SETS}, 'ntt output for inputs |x| < q'
    if kind[0] == 'from_fn':
        inner = kind[1] + '::{closure#0}'
        if inner not in funcs:
            return None, f'no inner closure {inner}'
        if inner in cache:
            return cache[inner]
        E, n, out, obl, res, pre = closure_run(funcs, inner)
        ins = coeff_inputs(E)
        res_by_set = {}
        why = []
        for sname, P in SETS.items():
            cons = list(pre) + list(E.summary_facts)
            for nm, t in ins.items():
                if nm.endswith('_mont') or nm in ('s_hat_1_mont', 's_hat_2_mont', 't_hat_0_mont'):
                    b = 2 * Q - 1; why.append(f'{nm}: to_mont output < 2q')
                elif nm == 'c_hat':
                    b = LM.ntt_out_bound(1); why.append(f'{nm}: ntt of a +-1 challenge <= {b}')
                elif nm in ('az_hat', 'as1_hat', 'ay_hat'):
                    b = P['L'] * TB; why.append(f'{nm}: mat_vec_mul output <= L*{TB}')
                else:
                    return None, f'closure {inner} reads `{nm}` for which no range is tabulated'
                cons += [t >= -b, t <= b]
            # no panic inside the closure under these ranges (C13 obligation as well)
            if obl:
                v = sess.discharge(f'[{sname}] {inner}: no panic under the call-site ranges', z3.Or(*[o['cond'] for o in obl]), pre=z3.And(*cons), enc='int', fn=inner)
            # best bound: q-1 if the result is a mont_reduce output, else structural
            bnd = None
            for cand in (LM.mr_bound((Q - 1) * (2 * Q)), Q - 1, P['L'] * TB + Q - 1):
                import zutil
                if zutil.check(*cons, z3.Or(out.t > cand, out.t < -cand), timeout_s=20) == z3.unsat:
                    bnd = cand
                    break
            if bnd is None:
                return None, f'no output bound established for {inner}'
            sess.discharge(f'[{sname}] {inner}: |out| <= {bnd}', z3.Or(out.t > bnd, out.t < -bnd), pre=z3.And(*cons), enc='int', fn=inner, cross=False)
            res_by_set[sname] = bnd
        cache[inner] = (res_by_set, '; '.join(sorted(set(why))))
        run.functions.append('MIR ' + inner)
        return cache[inner]
    return None, f'unrecognised producer {kind}'


def chain(sess, run, funcs, admissible, TB):
    """every inv_ntt call site of the crate: producer bound <= admissible input bound"""
    failures = []
    cache = {}
    nsites = 0
    for fname, f in funcs.items():
        for callee, need, argi in (('inv_ntt', admissible, 0), ('to_mont', 67058538, 0), ('mat_vec_mul', 67058538, 1)):
            for bb, dst, args in LM.call_sites(f, callee):
                nsites += 1
                kind = LM.trace_producer(funcs, f, args[argi])
                bounds, why = producer_bound(sess, run, funcs, f, kind, TB, None, cache)
                site = f'{fname}:{bb} {callee}({kind[0]}:{kind[1] if len(kind) > 1 else ""})'
                if bounds is None:
                    run.inconclusive.append(f'chain: {site}: {why}')
                    continue
                # monomorphic callers (into_bytes of one set) only need their own set
                sets = [s for s in SETS if s in fname] or list(SETS)
                for s in sets:
                    ok = bounds[s] <= need
                    run.add_query({'name': f'chain [{s}] {site}: producer bound {bounds[s]} <= admissible {need}', 'engine': 'E2 range chain (producer lemma + arithmetic)',
                                   'verdict': 'holds' if ok else 'sat', 'why': why})
                    if not ok:
                        failures.append((s, fname, bb, callee, kind, bounds[s], need))
    run.extra['call_sites_checked'] = nsites
    if nsites < 20:
        run.inconclusive.append(f'chain: only {nsites} inv_ntt/to_mont call sites found in the MIR dump (expected >= 20; anchor problem)')
    return failures


REPLAY_TMPL = '''
extern crate std;
use crate::types::{{R, T, R0}};
const Q: i64 = 8_380_417;

/// real ntt -> mat_vec_mul -> inv_ntt on: matrix row with every NTT-domain entry `a` (= the constant polynomial a),
/// vector of L constant polynomials c.  The negacyclic product of constants is the constant L*a*c.
fn pipeline<const L: usize>(a: i32, c: i32) -> [i32; 256] {{
    let z: [R; L] = core::array::from_fn(|_| {{ let mut r = R0; r.0[0] = c; r }});
    let row: [[T; L]; 1] = [core::array::from_fn(|_| T([a; 256]))];
    let z_hat = crate::ntt::ntt(&z);
    let w_hat = crate::helpers::mat_vec_mul(&row, &z_hat);
    let w = crate::ntt::inv_ntt(&w_hat);
    w[0].0
}}
fn check<const L: usize>(a: i32, c: i32) {{
    let w = pipeline::<L>(a, c);
    let e0 = ((L as i64) * (a as i64) % Q * (c as i64)).rem_euclid(Q);
    std::println!("L={{}} a={{}} c={{}} w[0]={{}} expected={{}}", L, a, c, w[0], e0);
    assert!(w[0] as i64 == e0, "VERIF-PROPERTY-VIOLATED C18: coefficient 0 is {{}} but the product mod q is {{}}", w[0], e0);
    for i in 1..256 {{ assert!(w[i] == 0, "VERIF-PROPERTY-VIOLATED C18: coefficient {{}} is {{}} but the product mod q is 0", i, w[i]); }}
}}
#[test]
fn c18_overflow_replay() {{
{calls}
}}

/// premise: the real transforms agree with the FIPS 204 definition on the 256 basis polynomials
/// (NTT(X^i)[m] = zeta^(i * (2*brv8(m)+1)); inv_ntt inverts it)
fn brv8(m: usize) -> usize {{ (m as u8).reverse_bits() as usize }}
fn powmod(mut b: i64, mut e: u64) -> i64 {{ let mut r = 1i64; b %= Q; while e > 0 {{ if e & 1 == 1 {{ r = r * b % Q; }} b = b * b % Q; e >>= 1; }} r }}
#[test]
fn c18_basis_premise() {{
    for i in 0..256usize {{
        let mut p = R0; p.0[i] = 1;
        let h = crate::ntt::ntt(&[p.clone()]);
        for m in 0..256usize {{
            let want = powmod(1753, (i * (2 * brv8(m) + 1)) as u64);
            assert!((h[0].0[m] as i64).rem_euclid(Q) == want, "VERIF-PROPERTY-VIOLATED C18 basis: ntt(X^{{}})[{{}}]", i, m);
        }}
        let back = crate::ntt::inv_ntt(&h);
        for n in 0..256usize {{ assert!(back[0].0[n] == if n == i {{ 1 }} else {{ 0 }}, "VERIF-PROPERTY-VIOLATED C18 basis: inv_ntt(ntt(X^{{}}))[{{}}]", i, n); }}
    }}
    // the transforms act polynomial by polynomial: a vector with zero, repeated and distinct entries in every position gives, entry by entry,
    // the transform of that entry alone (no state carried from one vector element to the next; NTT(0) = 0)
    let mut a = R0; a.0[3] = 5; a.0[200] = -7;
    let mut b = R0; b.0[0] = 1; b.0[255] = 8380416;
    let vecs: [[R; 4]; 4] = [[a.clone(), R0, b.clone(), R0], [R0, a.clone(), a.clone(), b.clone()], [b.clone(), R0, R0, a.clone()], [R0, R0, b.clone(), R0]];
    for v in vecs.iter() {{
        let hv = crate::ntt::ntt(v);
        for k in 0..4usize {{
            let single = crate::ntt::ntt(&[v[k].clone()]);
            for m in 0..256usize {{ assert!((hv[k].0[m] as i64 - single[0].0[m] as i64).rem_euclid(Q) == 0, "VERIF-PROPERTY-VIOLATED C18 vector: ntt of a vector differs from the transform of its entry {{}} at {{}}", k, m); }}
            let all_zero = v[k].0.iter().all(|c| *c == 0);
            if all_zero {{ for m in 0..256usize {{ assert!((hv[k].0[m] as i64).rem_euclid(Q) == 0, "VERIF-PROPERTY-VIOLATED C18 vector: NTT of the zero polynomial (entry {{}}) is not zero", k); }} }}
        }}
        let bv = crate::ntt::inv_ntt(&hv);
        for k in 0..4usize {{ for n in 0..256usize {{ assert!((bv[k].0[n] as i64 - v[k].0[n] as i64).rem_euclid(Q) == 0, "VERIF-PROPERTY-VIOLATED C18 vector: inv_ntt(ntt(v))[{{}}][{{}}] != v", k, n); }} }}
    }}
}}
'''


def replay_source(cases):
    calls = '\n'.join(f'    check::<{L}>({a}, {c});' for (L, a, c) in cases)
    return REPLAY_TMPL.format(calls=calls or '    // no cases')


def overflow_search(sess, run, funcs, admissible, TB):
    """scalar query on the real to_mont / mat_vec_mul closures: a in [0,q), c in the response-vector range with
    2^8 * L * mont_reduce(a * to_mont(c)) outside i32 -> (L, a, c) cases for the template"""
    cases = []
    for sname, P in SETS.items():
        L = P['L']
        Eb = e2.Exec(funcs, mode='bv', params={'K': 8, 'L': 7})
        n = e2.Val(z3.BitVec('n', 64), 'usize')
        res, obl = Eb.run('to_mont::{closure#0}::{closure#0}', [None, n])
        cm = merged(Eb, res)
        cin = [v for k, v in Eb.inputs.items() if k.startswith('vec_a[') and v.ty == 'i32'][0]
        a = z3.BitVec('a', 32)
        prod = z3.SignExt(32, a) * z3.SignExt(32, cm.t)
        Em = e2.Exec(funcs, mode='bv')
        r2, o2 = Em.run('mont_reduce', [e2.Val(prod, 'i64')])
        mr = merged(Em, r2).t
        v = z3.SignExt(32, mr) * L
        g1 = P['gamma1']
        q = e2.Query(f'overflow search [{sname}]', z3.And(a >= 0, a < Q, cin.t == g1, z3.Or(v * 256 > I32MAX, v * 256 < -(1 << 31)), *[x.t == 0 for k, x in Eb.inputs.items() if x.ty == 'usize' and not k.startswith('param')], z3.ULT(n.t, 256)))
        e2.solve(q, sess.cap)
        rec = {'name': q.name + ': exists a in [0,q), c = gamma1 with 2^8 * L * mont_reduce(a * to_mont(c)) outside i32', 'engine': 'E2 bv (real to_mont closure + mont_reduce)', 'verdict': q.verdict, 'solver_s': round(q.time, 2)}
        if q.verdict == 'sat':
            av = q.model.eval(a, model_completion=True).as_signed_long()
            rec['model'] = {'a': av, 'c': g1, 'L': L}
            cases.append((L, av, g1))
        run.add_query(rec, core=False)
        vlib.log(f'  [E2] {rec["name"]}: {q.verdict} {rec.get("model", "")}')
    return cases


def run(run, scr, tier, seed, only=None):
    sess = E2Session(run, scr, tier)
    text = mir.dump(scr, checked=True)
    funcs = mir.parse(text)
    run.assumptions += TRUSTED + ['inputs of every ntt call are decoded / sampled polynomials with |coefficient| < q (bit_unpack range check: C08/C10; samplers: C03/C04)',
                                  'expand_a entries are in [0,q) (coeff_from_three_bytes: C15)',
                                  'every *_hat_mont field of a key struct is a to_mont output (constructors key_gen_internal, expand_private, expand_public, private_to_public_key)',
                                  'K, L enter only through the accumulation length of mat_vec_mul (checked for L in {4,5,7})']
    failures = []
    try:
        LM.mont_reduce_contract(sess, funcs)
        run.functions.append('MIR mont_reduce')
        butterfly(sess, run, funcs, 'ntt')
        butterfly(sess, run, funcs, 'inv_ntt')
        admissible = inv_ntt_steps(sess, run, funcs)
        run.extra['inv_ntt_admissible_input_magnitude'] = admissible
        to_mont_lemma(sess, run, funcs)
        TB = mat_vec_lemma(sess, run, funcs)
        zeta_premise(run, text)
        sched = []
        try:
            import nttsched
            nttsched.run(funcs, sched)
        except Exception as e:  # noqa: BLE001 - the schedule lemmas strengthen the composition; the basis premise below decides
            sched = [{'name': 'ntt / inv_ntt loop-nest schedule', 'verdict': 'refused', 'detail': repr(e)[:200]}]
        for r in sched:
            run.add_query({'name': r['name'] + (' :: ' + r['detail'] if r['verdict'] != 'holds' else ''), 'engine': 'E2 loop-step lemmas from arbitrary (m, len, start) on the MIR (z3 BV)',
                           'verdict': 'holds' if r['verdict'] == 'holds' else 'unknown'}, core=r['verdict'] == 'holds')
            if r['verdict'] != 'holds':
                vlib.log(f'  [E2] schedule lemma not established ({r["verdict"]}): {r["name"][:80]} :: {r["detail"][:200]} -- the native basis premise decides')
        nb = LM.ntt_out_bound(Q - 1)
        run.add_query({'name': f'chain: ntt output bound for |input| < q is {nb} < 67058539 (to_mont / partial_reduce64 domain) and < 2^31', 'engine': 'arithmetic consequence of lemma Bf (8 layers)', 'verdict': 'holds' if nb < 67058539 else 'sat'})
        if nb >= 67058539:
            run.inconclusive.append('ntt output bound exceeds the to_mont domain')
        failures = chain(sess, run, funcs, admissible, TB)
    except e2.Refuse as e:
        run.inconclusive.append('E2 translator refused: ' + str(e))
        admissible, TB = None, None
    # kernel-level counterexamples of the closure lemmas (partial_reduce64 through to_mont): native scalar replay
    if run.extra.get('scalar_cases'):
        from e2run import run_scalar_cases
        cases_s = [(n, a) for n, a, _ in run.extra['scalar_cases']]
        for rel in (False, True):
            nat, ocs, outs = run_scalar_cases(scr, cases_s, release=rel)
            badc = [(k, v) for k, v in nat.items() if not v[1]]
            if badc:
                k0, v0 = badc[0]
                path = vlib.save_replay('C18', 'scalar', {'property': 'C18', 'kind': 'scalar', 'cases': [[n, list(a)] for n, a in cases_s], 'profile': 'release' if rel else 'dev'})
                run.violation('kernel-' + k0[0], f'{k0[0]}{list(k0[1])} = {v0[0]} ({"release" if rel else "dev"}) inside its documented domain: not congruent / out of range / panics (reached through to_mont in mat_vec_mul)', path)
                break
        else:
            run.inconclusive.append(f'to_mont lemma counterexample {cases_s[:2]} does not reproduce natively')
    # native part: basis premise always; overflow replay if the chain has open links
    cases = []
    if failures:
        vlib.log(f'  [E2] range chain does NOT close at {len(failures)} call-site/set pairs, e.g. {failures[0]}')
        cases = overflow_search(sess, run, funcs, admissible, TB)
    src = replay_source(cases)
    oc, out = vlib.native_test(scr, src, 'c18_basis_premise', release=True)
    run.add_query({'name': 'premise: real ntt / inv_ntt agree with the FIPS 204 definition on all 256 basis polynomials (native run, release profile)', 'engine': 'concrete premise (native)', 'verdict': 'holds' if oc == 'pass' else 'sat', 'trivial': True})
    if oc == 'fail':
        path = vlib.save_replay('C18', 'basis', {'property': 'C18', 'kind': 'basis'})
        run.violation('ntt-basis', 'real ntt/inv_ntt disagree with the FIPS 204 transform on a basis polynomial: ' + ' '.join(l for l in out.splitlines() if 'VERIF-PROPERTY' in l)[:300], path)
    elif oc == 'error':
        run.inconclusive.append('basis premise: native build/run error: ' + out[-600:])
    if failures:
        if not cases:
            run.inconclusive.append(f'range chain open at {len(failures)} links but the overflow search returned no witness: {failures[:3]}')
        else:
            rep = {}
            for rel in (False, True):
                oc, out = vlib.native_test(scr, src, 'c18_overflow_replay', release=rel)
                rep['release' if rel else 'dev'] = oc
                rep['msg_' + ('release' if rel else 'dev')] = ' | '.join(l.strip() for l in out.splitlines() if 'panicked' in l or 'VERIF-PROPERTY' in l or 'overflow' in l)[:400]
            path = vlib.save_replay('C18', 'overflow', {'property': 'C18', 'kind': 'overflow', 'cases': cases, 'native': rep, 'open_links': [str(x) for x in failures[:8]]})
            if 'fail' in (rep.get('dev'), rep.get('release')):
                run.violation('inv_ntt-unreduced-accumulation', f'ntt -> mat_vec_mul -> inv_ntt on an in-range matrix row and vector overflows i32 / returns a non-congruent product: cases (L,a,c)={cases} native={rep}', path)
            else:
                run.inconclusive.append(f'range chain open and solver witness {cases} does not reproduce natively: {rep}')
    run.samples = [{'obligation': q.get('name'), 'verdict': q.get('verdict'), 'solver_s': q.get('solver_s')} for q in run.queries[:14]]
    run.extra['bounds'] = ['butterfly lemmas: every loop state (j, len in {1,2,...,128}, j + len < 256), every zeta in [0,q) resp. (-q,0], every coefficient pair with |w| <= B, B symbolic up to 2^31-1-q (forward) / 2^30-1 (inverse)',
                           'closure lemmas: every coefficient value in the stated input range; index inside the polynomial symbolic',
                           'range chain: all inv_ntt / to_mont / mat_vec_mul call sites found in the MIR, L in {4, 5, 7}', 'schedule lemmas: one step of each loop of ntt / inv_ntt from an arbitrary state (m <= 256, len a power of two, start a multiple of 2 len): with the butterfly equations and premise Z the loop nest is the recurrence of Algorithms 41 / 42',
                           'composition to "equals the negacyclic product" is pen and paper (same recurrence as the standard + convolution theorem; cross-checked by the basis premise) and outside the solver']
    return run.finish(
        rule='one SMT query per lemma obligation over all loop states / coefficient values within the symbolic bound; chain rows are arithmetic comparisons of solver-proved producer bounds with the consumer precondition; '
             'non-trivial = distinct obligation with a solver verdict',
        checker_cmd='./check C18 (E2 Int encoding on the nightly MIR dump of the scratch copy; z3 5.1 + z3 4.8.12)',
        trusted_base=TRUSTED)


def replay(run, scr, path):
    p = json.load(open(path))
    if p.get('kind') == 'scalar':
        from e2run import run_scalar_cases
        bad = 0
        for rel in (False, True):
            nat, ocs, outs = run_scalar_cases(scr, [(n, a) for n, a in p['cases']], release=rel)
            vlib.log(f'replay ({"release" if rel else "dev"}): {nat}')
            bad += sum(1 for v in nat.values() if not v[1])
        if bad:
            vlib.log(f'VIOLATION property=C18 replay={path}')
            return 1
        return 0
    if p.get('kind') == 'basis':
        oc, out = vlib.native_test(scr, replay_source([]), 'c18_basis_premise', release=True)
        res = {'release': oc}
    else:
        src = replay_source([tuple(c) for c in p['cases']])
        res = {}
        for rel in (False, True):
            oc, out = vlib.native_test(scr, src, 'c18_overflow_replay', release=rel)
            res['release' if rel else 'dev'] = oc
    vlib.log(f'replay {path}: {res}')
    if 'fail' in res.values():
        vlib.log(f'VIOLATION property=C18 replay={path}')
        return 1
    return 0 if set(res.values()) == {'pass'} else 2
