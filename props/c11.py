"""C11 — the public key derived from a private key equals the generated one."""
import vlib
from props import skelprops

LEVEL = 'translation_validation'


def run(run, scr, tier, seed, only=None):
    run.assumptions += skelprops.TRUSTED + ['the derived path feeds mat_vec_mul with mont_reduce(s1^_mont) instead of NTT(s1): both are congruent mod q (lemma unmont + to_mont lemma of C18) and everything downstream of the full reduction sees canonical values',
                                             'round-tripped private keys are field-wise equal to generated ones: C09']
    skelprops.run_prop(run, scr, tier, seed, 'C11', diff=('derive',), diff_load=(15000, 0), only=only)
    return run.finish(
        rule='obligations: private_to_public_key recomputes t1 with the same call sequence as KeyGen_internal (modulo leaving Montgomery form), copies rho and tr from the private key, '
             'and builds the same verifier precompute; each per-coefficient closure equals its FIPS / representation-change formula for every coefficient value (SMT)',
        checker_cmd='./check C11', trusted_base=skelprops.TRUSTED)


def replay(run, scr, path):
    return skelprops.replay_diff('C11', scr, path)
