"""C08 — signature and polynomial encodings are canonical."""
import json
import re
import vlib
from vlib import Harness
from props import wrapc

LEVEL = 'model_checking'
TRUSTED = ['Kani 0.68 / CBMC 6.11 + cadical', 'stubs: zeroize barrier; <R as Drop>::drop -> no-op', 'spec-literal Algorithms 13, 18-21 in kani/spec.rs',
           'reduced generic instantiation hint_bit_unpack::<2> / hint_bit_pack::<_,2> (omega = 8 / 4) stands for the real (K, omega): same generic code, loops over K and omega only']
HINT_RULES = [(r'hint_bit_unpack::<2>', 12), (r'hint_bit_pack::<false, 2>', 258)]


def harness_list(tier, seed=0):
    """measured on this machine (7 in parallel): hint window 11-14 min, all-bytes bijections 10-17 min, adjacent-pair round trips 7-8 min,
    hint re-pack > 30 min.  Quick tier (must stay well below 15 min): E2 layout + hint loop-step lemmas, one adjacent-pair round trip (by seed) and the native codec
    differential in parallel; thorough = every window, the K = 3 count harness, all bijections and round trips."""
    hs = []
    wins = ['c08_hint_window_0', 'c08_hint_window_2', 'c08_hint_window_4']
    quick_wins = []      # quick tier: the loop-step lemmas (K, omega symbolic) decide the hint decoder; the windows run in the thorough tier or when the lemmas refuse
    for n in (wins if tier == 'thorough' else quick_wins):
        hs.append(Harness('verif_kani::c08::' + n, 'C08', timeout=2400, loop_rules=HINT_RULES[:1],
                          bounds='K=2, omega=8; both count bytes + 4 consecutive index bytes symbolic (all 2^48 values), strictly increasing concrete background; hint loops unwound 12x, 256-loops 258x, unwinding assertions on'))
    bij = [('c08_bitpack_t1', 'all 2^2560 byte strings of a t1 polynomial'), ('c08_bitpack_t0', 'all byte strings of a t0 polynomial'),
           ('c08_bitpack_z17', 'all byte strings of a z polynomial (gamma1 = 2^17)'), ('c08_bitpack_z19', 'all byte strings of a z polynomial (gamma1 = 2^19)')]
    for n, b in (bij if tier == 'thorough' else []):
        hs.append(Harness('verif_kani::c08::' + n, 'C08', timeout=3000, mem_gb=16, bounds=b + '; decoded index and re-encoded byte index symbolic'))
    rts = ['c08_roundtrip_eta2', 'c08_roundtrip_eta4', 'c08_roundtrip_w1_44', 'c08_roundtrip_w1_65', 'c08_roundtrip_t0']
    for n in (rts if tier == 'thorough' else [rts[seed % 4]]):
        hs.append(Harness('verif_kani::c08::' + n, 'C08', timeout=2400, bounds='two adjacent symbolic in-range coefficients at a symbolic position, zeros elsewhere'))
    if tier == 'thorough':
        hs.append(Harness('verif_kani::c08::c08_hint_k3_counts', 'C08', timeout=3000, loop_rules=[(r'hint_bit_unpack::<3>', 10)],
                          bounds='K=3, omega=6; the three count bytes + two position bytes symbolic (count patterns that need a middle polynomial)'))
        hs.append(Harness('verif_kani::c08::c08_hint_repack', 'C08', timeout=7200, mem_gb=24, loop_rules=HINT_RULES[:1], best_effort=True, bounds='K=2, omega=8; 6 symbolic bytes; real hint_bit_pack on the decoded hint'))
        hs.append(Harness('verif_kani::c08::c08_hint_exhaustive_k2_w4', 'C08', timeout=7200, mem_gb=24, loop_rules=[(r'hint_bit_unpack::<2>', 8)], best_effort=True,
                          bounds='every byte string of the hint section at K=2, omega=4'))
    return hs


def run(run, scr, tier, seed, only=None):
    hs = harness_list(tier, seed)
    if only:
        hs = [h for h in hs if any(o in h.name for o in only)]
    run.functions += ['src/conversion.rs::{hint_bit_unpack, hint_bit_pack, bit_unpack, bit_pack, simple_bit_pack}', 'src/helpers.rs::is_in_range']
    run.assumptions += TRUSTED + ['sig_decode / pk_decode / sk_decode / w1_encode section arithmetic (offsets, lengths) is covered by the dataflow-skeleton obligations of C02/C09',
                                  'eta sections: acceptance == range rule is C10']
    # E2: section layout of the encodings (which bytes go to which (un)packer with which (a, b)), all three sets
    import mir, layout, e2, diffnative
    lres = []
    try:
        layout.run(mir.parse(mir.dump(scr, checked=True)), lres)
        run.functions.append('MIR sig_decode / sig_encode / sk_decode / sk_encode / pk_decode / w1_encode (section layout)')
    except e2.Refuse as ex:
        run.inconclusive.append('layout obligations: translator refused: ' + str(ex))
    import hintlemmas
    try:
        hintlemmas.run(mir.parse(mir.dump(scr, checked=True)), lres)
        run.functions.append('MIR hint_bit_unpack (loop-step lemmas, K and omega symbolic)')
    except Exception as ex:
        lres.append({'name': 'hint_bit_unpack loop lemmas', 'tags': ['C08'], 'verdict': 'refused', 'detail': repr(ex)})
    lbad = []
    for r in lres:
        if r['verdict'] == 'refused' and r['name'].startswith('hint_bit_unpack'):
            run.add_query({'name': r['name'], 'engine': 'E2 loop-step lemma', 'verdict': 'refused', 'detail': r['detail'][:200], 'note': 'decoder restructured: decided by the Kani window harnesses of this check'}, core=False)
            continue
        run.add_query({'name': r['name'], 'engine': 'E2 skeleton + SMT (byte ranges as terms in the loop index)', 'verdict': 'holds' if r['verdict'] == 'holds' else ('sat' if r['verdict'] == 'mismatch' else 'unknown'), 'detail': r['detail'][:300]})
        if r['verdict'] == 'mismatch':
            lbad.append(r)
        elif r['verdict'] == 'refused':
            run.inconclusive.append(r['name'] + ': ' + r['detail'][:200])
    if lbad:
        conf = []
        for what in ('sign', 'verify', 'serdes'):
            oc, msgs = diffnative.run(scr, what, seed=seed + 1, n_seeds=2, n_msgs=6)
            if oc == 'fail':
                conf.append((what, msgs[:2]))
        path = vlib.save_replay('C08', 'layout', {'property': 'C08', 'kind': 'layout', 'mismatches': [(r['name'], r['detail']) for r in lbad], 'confirmed': conf})
        if conf:
            run.violation('layout-' + lbad[0]['name'][:50], f'{lbad[0]["name"]}: {lbad[0]["detail"][:300]}; confirmed natively: {conf[0]}', path)
        else:
            run.inconclusive.append(f'layout obligation fails but the differential tests agree with the reference: {lbad[0]["name"]}: {lbad[0]["detail"][:200]}')
    import concurrent.futures
    pool = concurrent.futures.ThreadPoolExecutor(max_workers=1)
    fut_native = pool.submit(native, scr)
    refused_hint = any(r['verdict'] == 'refused' and r['name'].startswith('hint_bit_') for r in lres)
    if refused_hint and tier != 'thorough' and 'fail' in fut_native.result()[0].values():
        refused_hint = False        # the native differential already reproduces a failure: no need for the slow window harnesses
    if refused_hint and tier != 'thorough':
        # the loop lemmas (K, omega symbolic) do not apply to a restructured decoder: all window harnesses decide instead of the seed-selected one
        have = {h.name for h in hs}
        for n in ('c08_hint_window_0', 'c08_hint_window_2', 'c08_hint_window_4'):
            if 'verif_kani::c08::' + n not in have:
                hs.append(Harness('verif_kani::c08::' + n, 'C08', timeout=2400, loop_rules=HINT_RULES[:1], bounds='K=2, omega=8; both count bytes + 4 consecutive index bytes symbolic'))
        hs.append(Harness('verif_kani::c08::c08_hint_k3_counts', 'C08', timeout=3000, loop_rules=[(r'hint_bit_unpack::<3>', 10)], bounds='K=3, omega=6; the three count bytes + two position bytes symbolic'))
    results = vlib.run_kani(scr, hs, jobs=7)
    run.add_kani_results(results)
    # every run also executes the native codec differential (real (K, omega), every malformation class): cheap, and it is what confirms a solver counterexample
    res0, msgs0 = fut_native.result()
    run.add_query({'name': 'native codec differential at the real (K, omega): real decoders / encoders vs spec-literal Algorithms 16-21 on structured malformed inputs', 'engine': 'native (confirmation workload)', 'verdict': 'holds' if set(res0.values()) == {'pass'} else 'sat', 'detail': msgs0[:3], 'trivial': True}, core=False)
    if 'fail' in res0.values() and not any(r.status == 'failed' for r in results):
        path = vlib.save_replay('C08', 'native', {'property': 'C08', 'kind': 'codec', 'native': res0, 'msgs': msgs0[:6]})
        run.violation('codec-native', f'native codec differential: {msgs0[:3]} {res0}', path)
    for r in results:
        if r.status == 'failed':
            own, other = wrapc.split_failures(r, 'C08')
            what = '; '.join(d for _, d, _ in own)[:300]
            path = vlib.save_replay('C08', r.h.name.split('::')[-1], {'property': 'C08', 'kind': 'codec', 'harness': r.h.name, 'failed': own})
            # native confirmation: the solver's own hint section first (concrete playback), then the structured codec differential
            wit = window_witness(scr, r) if 'hint_window' in r.h.name else ''
            res, msgs = native(scr, wit)
            if wit:
                p = json.load(open(path)); p['witness'] = wit; json.dump(p, open(path, 'w'))
            if 'fail' in res.values():
                run.violation('codec-' + r.h.name.split('::')[-1], f'{r.h.name}: {what}; native differential: {msgs[:3]} {res}', path)
            else:
                run.inconclusive.append(f'{r.h.name} failed ({what}) but the native codec differential test passes: {res}')
    run.samples = [{'harness': r.h.name, 'verdict': r.status, 'covers': r.covers[:4]} for r in results[:8]]
    return run.finish(
        rule='one harness per codec obligation; hint decoder: every value of the symbolic window (48 bits) against Algorithm 21; coefficient codecs: every byte string of the polynomial / every pair of adjacent in-range coefficients',
        checker_cmd='cargo kani -Z stubbing --harness verif_kani::c08::* (per-loop unwind bounds from cbmc --show-loops)',
        trusted_base=TRUSTED)


def window_witness(scr, r):
    """hint section of a failing window harness from Kani's concrete playback: y = background with the six symbolic bytes filled in"""
    m = re.search(r'c08_hint_window_(\d+)$', r.h.name)
    if not m:
        return ''
    w0 = int(m.group(1))
    vals, _ = vlib.kani_playback_values(scr, r.h)
    if not vals:
        return ''
    stream = b''.join(vals)
    if len(stream) < 6:
        return ''
    y = [(10 + i * 20) & 255 for i in range(8)] + [0, 0]
    for k in range(4):
        y[w0 + k] = stream[k]
    y[8], y[9] = stream[4], stream[5]
    return 'hint_case::<2>(8, &[' + ', '.join(f'{b}u8' for b in y) + '], &mut bad);\n    '


def native(scr, witness=''):
    src = open(vlib.VERIF + '/replay/c08_codec.rs').read().replace('@VERIF@', vlib.VERIF).replace('// @WITNESS@', witness)
    res = {}; msgs = []
    for rel in (False, True):
        oc, out = vlib.native_test(scr, src, 'c08_codec_differential', release=rel, timeout=1800)
        res['release' if rel else 'dev'] = oc
        msgs += [l.strip() for l in out.splitlines() if l.startswith('C08') or 'VERIF-PROPERTY' in l][:6]
        if oc == 'error':
            msgs.append(out[-600:])
    return res, msgs


def replay(run, scr, path):
    res, msgs = native(scr, json.load(open(path)).get('witness', ''))
    vlib.log(f'replay {path}: {res} {msgs[:4]}')
    if 'fail' in res.values():
        vlib.log(f'VIOLATION property=C08 replay={path}')
        return 1
    return 0 if set(res.values()) == {'pass'} else 2
