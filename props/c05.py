"""C05 — any single-bit change invalidates a signature.  Only the 'bit relevance' part is decidable by a solver:
no bit of (sig, pk, M, ctx) is ignored and the encodings have no slack; that a changed transcript cannot hash to the
same value (SHAKE256) and that a changed z cannot give the same w1' (MSIS) are outside the claim."""
import vlib
from vlib import Harness
from props import skelprops

LEVEL = 'other'


def run(run, scr, tier, seed, only=None):
    run.assumptions += skelprops.TRUSTED + ['NOT decided: collision resistance of SHAKE256 and the lattice statement that a different z cannot produce the same w1\' for the honest A',
                                             'hint-section strictness (every byte string either rejected or decoded to a distinct h; re-encoding reproduces the bytes) and bijectivity of the coefficient codecs are C08 obligations']
    e1 = [Harness('verif_kani::c01::c01_use_hint_flips', 'C05', timeout=900, bounds='every r in Z_q, both gamma2: UseHint(1,r) != UseHint(0,r)')]
    skelprops.run_prop(run, scr, tier, seed, 'C05', e1=e1, diff=('verify',), diff_load=(2, 10), only=only)
    expl = ('Bit relevance only: (a) verify_internal feeds every part of the decoded signature into the decision - c~ into SampleInBall and the final comparison, z into NTT/norm, h into UseHint (skeleton obligations); '
            '(b) every public-key byte reaches rho (ExpandA) or t1 and, through tr = H(pk), the message representative (expand_public skeleton); (c) message and context enter mu through an injective formatting (C06); '
            '(d) UseHint changes whenever a hint bit changes (Kani, all r); (e) codecs have no slack (C08). The hash / lattice part of strong binding is not claimed.')
    run.extra['explanation'] = expl
    return run.finish(rule=expl, checker_cmd='./check C05', trusted_base=skelprops.TRUSTED, explanation=expl)


def replay(run, scr, path):
    return skelprops.replay_diff('C05', scr, path)
