"""shared by the checks that use the wrapper harnesses (kani/wrappers.rs): C07, C12 and the wrapper parts of C02/C03/C04/C06"""
import os
import re
import vlib
from vlib import Harness

SETS = ('w44', 'w65', 'w87')
TRUSTED = ['Kani 0.68 / CBMC 6.11 + cadical', 'stubs: sign_internal / verify_internal / key_gen_internal -> argument recorders; zeroize::optimization_barrier -> no-op',
           'sha2 / sha3 replaced by oracle model crates (digest = nondeterministic value, transcript recorded)', 'model RNG: try_fill_bytes nondeterministically fills+Ok, fails untouched, or fails after a nondeterministic prefix; infallible methods assert false']


def harnesses(kinds, prop, sets=SETS):
    hs = []
    for s in sets:
        for k in kinds:
            hs.append(Harness(f'verif_kani::wrappers::{s}::{k}', prop, timeout=900,
                              bounds='context length symbolic in 0..=1024; message 3 symbolic bytes; all RNG outcomes; all three pre-hash functions' if k != 'keygen' else 'all RNG outcomes and all 32 drawn bytes'))
    return hs


def split_failures(result, prop):
    """failed checks of a harness that concern `prop` (tagged 'Cxx:' with this id, or untagged) vs. other properties"""
    own, other = [], []
    for (name, desc, loc) in result.failed:
        m = re.match(r'^(C\d\d)(?:/(C\d\d))?(?:/(C\d\d))?:', desc)
        if m and prop not in [g for g in m.groups() if g]:
            other.append((name, desc, loc))
        else:
            own.append((name, desc, loc))
    return own, other


def first_usize(vals):
    return int.from_bytes(vals[0], 'little') if vals and len(vals[0]) == 8 else None


def native_module(template, consts):
    tmpl = open(os.path.join(vlib.VERIF, 'replay', template)).read()
    return consts + '\n' + tmpl
