"""C12 — RNG failure is reported, and all drawn randomness is used."""
import json
import vlib
from props import wrapc

LEVEL = 'model_checking'


def native(scr, partials):
    src = wrapc.native_module('c12_rng.rs', 'const PARTIALS: &[usize] = &[' + ', '.join(str(n) for n in partials) + '];')
    res = {}
    msgs = []
    for rel in (False, True):
        oc, out = vlib.native_test(scr, src, 'c12_rng_faults', release=rel)
        res['release' if rel else 'dev'] = oc
        msgs += [l.strip() for l in out.splitlines() if l.startswith('ml_dsa_') or 'VERIF-PROPERTY' in l][:6]
        if oc == 'error':
            msgs.append(out[-800:])
    return res, msgs


def run(run, scr, tier, seed, only=None):
    hs = wrapc.harnesses(['sign', 'hash_sign', 'keygen'], 'C12')
    if only:
        hs = [h for h in hs if any(o in h.name for o in only)]
    run.functions += ['src/lib.rs functionality!{try_sign_with_rng, try_hash_sign_with_rng, try_keygen_with_rng, keygen_from_seed}', 'src/ml_dsa.rs::key_gen']
    run.assumptions += wrapc.TRUSTED + ['"each of the 32 bytes influences the result" is decided as: rnd / xi handed to Sign_internal / KeyGen_internal are exactly the 32 drawn bytes (here) and all 32 are absorbed into the rho\'\' / first keygen transcript (C03/C04 transcript obligations)',
                                       'OS-RNG convenience wrappers (try_keygen, try_sign, try_hash_sign) are one-line delegations to the *_with_rng functions with &mut OsRng (traits.rs); OsRng itself is outside the claim']
    results = vlib.run_kani(scr, hs, jobs=6)
    partials = set()
    for r in results:
        if r.status == 'failed':
            own, other = wrapc.split_failures(r, 'C12')
            if not own:
                r.status = 'success'; r.detail = 'only assertions of other properties failed: ' + '; '.join(d for _, d, _ in other)[:200]
                continue
            r.detail = 'C12 assertions failed: ' + '; '.join(d for _, d, _ in own)[:300]
    run.add_kani_results(results)
    failed = [r for r in results if r.status == 'failed']
    if failed:
        ps = [0, 1, 16, 31, 32]
        res, msgs = native(scr, ps)
        path = vlib.save_replay('C12', 'rng', {'property': 'C12', 'kind': 'rng', 'partials': ps, 'native': res, 'failed': [r.detail for r in failed]})
        if 'fail' in res.values():
            run.violation('rng-discipline', f'RNG discipline: {msgs[:4]} ; harness: {[r.detail for r in failed][:2]} native={res}', path)
        else:
            run.inconclusive.append(f'C12 harness failures did not reproduce natively: {[r.detail for r in failed][:2]} native={res} {msgs[:2]}')
    run.samples = [{'harness': r.h.name, 'verdict': r.status, 'covers': r.covers[:5]} for r in results[:6]]
    return run.finish(
        rule='one harness per (parameter set, entry point) decides the RNG discipline for every fault kind (error before writing, error after a prefix of 0..32 bytes, use of an infallible method) and every value of the 32 drawn bytes',
        checker_cmd='cargo kani -Z stubbing --harness verif_kani::wrappers::{w44,w65,w87}::{sign,hash_sign,keygen}',
        trusted_base=wrapc.TRUSTED)


def replay(run, scr, path):
    p = json.load(open(path))
    res, msgs = native(scr, p['partials'])
    vlib.log(f'replay {path}: {res} {msgs[:4]}')
    if 'fail' in res.values():
        vlib.log(f'VIOLATION property=C12 replay={path}')
        return 1
    return 0 if set(res.values()) == {'pass'} else 2
