"""C12 — RNG failure is reported, and all drawn randomness is used."""
import json
import vlib
from props import wrapc

LEVEL = 'model_checking'


def native(scr, partials):
    src = wrapc.native_module('c12_rng.rs', 'const PARTIALS: &[usize] = &[' + ', '.join(str(n) for n in partials) + '];')
    res = {}
    msgs = []
    for rel in (False, True):
        oc, out = vlib.native_test(scr, src, 'c12_rng_faults', release=rel)
        res['release' if rel else 'dev'] = oc
        msgs += [l.strip() for l in out.splitlines() if l.startswith('ml_dsa_') or 'VERIF-PROPERTY' in l][:6]
        if oc == 'error':
            msgs.append(out[-800:])
    return res, msgs


def run(run, scr, tier, seed, only=None):
    hs = wrapc.harnesses(['sign', 'hash_sign', 'keygen'], 'C12')
    if only:
        hs = [h for h in hs if any(o in h.name for o in only)]
    run.functions += ['src/lib.rs functionality!{try_sign_with_rng, try_hash_sign_with_rng, try_keygen_with_rng, keygen_from_seed}', 'src/ml_dsa.rs::key_gen']
    run.assumptions += wrapc.TRUSTED + ['"each of the 32 bytes influences the result" is decided as: rnd / xi handed to Sign_internal / KeyGen_internal are exactly the 32 drawn bytes (here) and all 32 are absorbed into the rho\'\' / first keygen transcript (C03/C04 transcript obligations)',
                                       'OS-RNG convenience wrappers (try_keygen, try_sign, try_hash_sign): shown by E2 skeletons to be single delegating calls with a fresh OsRng value; OsRng / getrandom itself is outside the claim']
    # E2: the OS-RNG convenience functions are pure delegations to the *_with_rng functions with a fresh OsRng value on every call
    import mir, skel, e2
    try:
        funcs = mir.parse(mir.dump(scr, checked=True))
        for fn, callee, nargs, passthru in (('KeyGen::try_keygen', 'try_keygen_with_rng', 1, []), ('Signer::try_sign', 'try_sign_with_rng', 4, ['&self', '&message', '&ctx']), ('Signer::try_hash_sign', 'try_hash_sign_with_rng', 5, ['&self', '&message', '&ctx', '&ph'])):
            ok = False; det = 'not found'
            if fn in funcs:
                E, paths = skel.extract(funcs, fn)
                calls = [c for p in paths for c in p.calls]
                det = str([(skel.short_callee(c['callee']), c['args']) for c in calls])[:300]
                if len(paths) == 1 and len(calls) == 1:
                    c = calls[0]
                    params = [nm for _, nm in sorted((l, funcs[fn].debug.get(l, l)) for l, _ in funcs[fn].params)]
                    rng_args = [a for a, ty in zip(c['args'], c['argtys']) if 'OsRng' in ty]
                    others = [a for a, ty in zip(c['args'], c['argtys']) if 'OsRng' not in ty]
                    ok = (c['callee'].endswith(callee) and len(c['args']) == nargs and len(rng_args) == 1 and rng_args[0].startswith('&_')
                          and paths[0].ret_s == c['result'] and others == passthru)
                run.functions.append('MIR ' + fn)
            run.add_query({'name': f'{fn}: exactly one call, to {callee} with a fresh local OsRng, result returned unchanged (no caching, every call draws anew)', 'engine': 'E2 skeleton', 'verdict': 'holds' if ok else 'sat', 'detail': det})
            if not ok:
                run.inconclusive.append(f'{fn}: OS-RNG wrapper is not a plain delegation: {det}')
        for setn in ('ml_dsa_44', 'ml_dsa_65', 'ml_dsa_87'):
            fn = f'{setn}::try_keygen'
            ok = False; det = 'not found'
            if fn in funcs:
                E, paths = skel.extract(funcs, fn)
                calls = [c for p in paths for c in p.calls]
                det = str([c['callee'] for c in calls])[:200]
                ok = len(paths) == 1 and len(calls) == 1 and calls[0]['callee'].endswith('KeyGen>::try_keygen') and paths[0].ret_s == calls[0]['result']
                run.functions.append('MIR ' + fn)
            run.add_query({'name': f'{fn}: delegates to KG::try_keygen', 'engine': 'E2 skeleton', 'verdict': 'holds' if ok else 'sat', 'detail': det})
            if not ok:
                run.inconclusive.append(f'{fn}: not a plain delegation: {det}')
    except (e2.Refuse, vlib.BuildError) as ex:
        run.inconclusive.append('E2 part of C12 refused: ' + str(ex)[:300])
    build_failed = None
    try:
        results = vlib.run_kani(scr, hs, jobs=6)
    except vlib.BuildError as ex:
        results = []; build_failed = str(ex)[-400:].replace('\n', ' ')
        run.add_query({'name': 'Kani harness module builds against this tree', 'engine': 'rustc (Kani build)', 'verdict': 'unknown', 'detail': build_failed}, core=False)
        run.inconclusive.append('Kani harness module does not build on this tree (changed internal signature?): ' + build_failed[-200:])
    partials = set()
    for r in results:
        if r.status == 'failed':
            own, other = wrapc.split_failures(r, 'C12')
            if not own:
                r.status = 'success'; r.detail = 'only assertions of other properties failed: ' + '; '.join(d for _, d, _ in other)[:200]
                continue
            r.detail = 'C12 assertions failed: ' + '; '.join(d for _, d, _ in own)[:300]
    run.add_kani_results(results)
    failed = [r for r in results if r.status == 'failed']
    if failed or build_failed:
        ps = [0, 1, 16, 31, 32]
        res, msgs = native(scr, ps)
        path = vlib.save_replay('C12', 'rng', {'property': 'C12', 'kind': 'rng', 'partials': ps, 'native': res, 'failed': [r.detail for r in failed]})
        if 'fail' in res.values():
            run.violation('rng-discipline', f'RNG discipline: {msgs[:4]} ; harness: {[r.detail for r in failed][:2]} native={res}', path)
        elif failed:
            run.inconclusive.append(f'C12 harness failures did not reproduce natively: {[r.detail for r in failed][:2]} native={res} {msgs[:2]}')
    run.samples = [{'harness': r.h.name, 'verdict': r.status, 'covers': r.covers[:5]} for r in results[:6]]
    return run.finish(
        rule='one harness per (parameter set, entry point) decides the RNG discipline for every fault kind (error before writing, error after a prefix of 0..32 bytes, use of an infallible method) and every value of the 32 drawn bytes',
        checker_cmd='cargo kani -Z stubbing --harness verif_kani::wrappers::{w44,w65,w87}::{sign,hash_sign,keygen}',
        trusted_base=wrapc.TRUSTED)


def replay(run, scr, path):
    p = json.load(open(path))
    res, msgs = native(scr, p['partials'])
    vlib.log(f'replay {path}: {res} {msgs[:4]}')
    if 'fail' in res.values():
        vlib.log(f'VIOLATION property=C12 replay={path}')
        return 1
    return 0 if set(res.values()) == {'pass'} else 2
