"""C07 — the 255-byte context limit is enforced without aliasing."""
import json
import vlib
from props import wrapc

LEVEL = 'model_checking'
GRID = [0, 1, 255, 256, 257, 511, 512, 513, 767, 768, 1023, 1024]


def native(scr, lengths):
    """dev profile: the grid; release profile: the given lengths (the whole bound 0..=1024 when a harness failed)"""
    res = {}
    msgs = []
    for rel in (False, True):
        ls = lengths if rel else sorted(set(GRID) | set(lengths[:0]))
        src = wrapc.native_module('c07_ctx.rs', 'const LENGTHS: &[usize] = &[' + ', '.join(str(n) for n in ls) + '];')
        oc, out = vlib.native_test(scr, src, 'c07_ctx_lengths', release=rel, timeout=2400)
        res['release' if rel else 'dev'] = oc
        msgs += [l.strip() for l in out.splitlines() if l.startswith('ml_dsa_') or 'VERIF-PROPERTY' in l][:6]
        if oc == 'error':
            msgs.append(out[-800:])
    return res, msgs


def run(run, scr, tier, seed, only=None):
    hs = wrapc.harnesses(['sign', 'hash_sign', 'verify', 'internal_iface'], 'C07')
    if only:
        hs = [h for h in hs if any(o in h.name for o in only)]
    run.functions += ['src/lib.rs functionality!{try_sign_with_rng, try_hash_sign_with_rng, verify, hash_verify, _internal_sign, _internal_verify} for ml_dsa_44/65/87', 'src/hashing.rs::hash_message']
    run.assumptions += wrapc.TRUSTED + ['the length byte absorbed into mu equals the context length for every n <= 255 (transcript harness of C06)', 'context lengths above 1024 are outside the bound']
    build_failed = None
    try:
        results = vlib.run_kani(scr, hs, jobs=6)
    except vlib.BuildError as ex:
        # a changed crate-internal signature breaks the stubs of the harness module: the solver part is unavailable, the native sweep of the
        # whole bound runs instead and a reproduced failure is still reported
        results = []; build_failed = str(ex)[-400:].replace('\n', ' ')
        run.add_query({'name': 'Kani harness module builds against this tree', 'engine': 'rustc (Kani build)', 'verdict': 'unknown', 'detail': build_failed}, core=False)
        run.inconclusive.append('Kani harness module does not build on this tree (changed internal signature?): ' + build_failed[-200:])
    bad_lengths = set()
    for r in results:
        if r.status == 'failed':
            own, other = wrapc.split_failures(r, 'C07')
            if not own:
                r.status = 'success'; r.detail = 'only assertions of other properties failed: ' + '; '.join(d for _, d, _ in other)[:200]
                continue
            r.detail = 'C07 assertions failed: ' + '; '.join(d for _, d, _ in own)[:300]
    run.add_kani_results(results)
    failed = [r for r in results if r.status == 'failed']
    if failed or build_failed:
        # the solver says a violating length exists within 0..=1024 (or could not be asked): find it natively by sweeping the whole bound
        lengths = list(range(0, 1025))
        res, msgs = native(scr, lengths)
        path = vlib.save_replay('C07', 'ctx', {'property': 'C07', 'kind': 'ctx', 'lengths': 'all 0..=1024 (release), grid (dev)', 'native': res, 'first_failures': msgs[:6], 'failed': [r.detail for r in failed]})
        if 'fail' in res.values():
            run.violation('ctx-guard', f'context-length guard: {msgs[:4]} (native {res})', path)
        else:
            if failed:
                run.inconclusive.append(f'C07 harness failures did not reproduce natively: {[r.detail for r in failed][:2]} native={res} {msgs[:2]}')
    run.samples = [{'harness': r.h.name, 'verdict': r.status, 'covers': r.covers[:5]} for r in results[:6]]
    return run.finish(
        rule='one harness per (parameter set, entry point) decides the guard for every context length 0..=1024 and every RNG/verifier outcome; non-trivial = verified with the covers n==255 accepted, n==256 and n==512 rejected satisfied',
        checker_cmd='cargo kani -Z stubbing --harness verif_kani::wrappers::{w44,w65,w87}::{sign,hash_sign,verify,internal_iface}',
        trusted_base=wrapc.TRUSTED)


def replay(run, scr, path):
    p = json.load(open(path))
    res, msgs = native(scr, list(range(0, 1025)))
    vlib.log(f'replay {path}: {res} {msgs[:4]}')
    if 'fail' in res.values():
        vlib.log(f'VIOLATION property=C07 replay={path}')
        return 1
    return 0 if set(res.values()) == {'pass'} else 2
