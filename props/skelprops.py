"""shared driver of the properties decided (mainly) by the dataflow-skeleton suite: C01 C02 C03 C04 C06 C09 C11"""
import json
import os
import z3
import e2
import mir
import vlib
import skelsuite
import diffnative
from e2run import E2Session
from vlib import Harness
from props import wrapc

TRUSTED = ['rustc nightly MIR dump', 'E2 translator / skeleton executor (calls uninterpreted; per-coefficient closures and scalar kernels translated and decided separately)',
           'z3 5.1.0 (+ z3 4.8.12 cross-check)', 'Kani 0.68 / CBMC 6.11 for the E1 harnesses',
           'hash functions are oracles: SHAKE / SHA-2 calls are uninterpreted symbols (that RustCrypto implements them, and collision resistance, are outside the claim)',
           'NTT / matrix algebra calls are uninterpreted here; their correctness and ranges are C18',
           'the FIPS 204 call sequences transcribed in lib/skelsuite.py']


def load_for(what, diff_load):
    ns, nm = diff_load
    if what == 'sign':
        nm = max(nm, 300)
    if what == 'keygen_search':
        ns, nm = 20000, 0
    if what == 'roundtrip_search':
        ns, nm = 40000, 0               # honest sign -> verify; a rejection typically needs an event of probability about 1e-4 per signature
    if what == 'derive':
        ns, nm = max(ns, 15000), 0      # directed search: a derivation defect typically needs a rare key (about 1 in 10^4)
    return ns, nm


def run_prop(run, scr, tier, seed, prop, e1=None, diff=(), diff_load=(2, 8), extra=None, only=None):
    sess = E2Session(run, scr, tier)
    sess.quiet_sat = True      # counterexamples of suite lemmas are confirmed through the differential native tests below
    funcs = mir.parse(mir.dump(scr, checked=True))
    suite = skelsuite.Suite(run, sess, funcs, scr)
    allres = suite.run_all()
    mine = [r for r in allres if prop in r['tags']]
    mism = []
    hint_fallback = False
    for r in mine:
        run.add_query({'name': r['name'], 'engine': 'E2 skeleton/lemma', 'verdict': 'holds' if r['verdict'] == 'holds' else ('sat' if r['verdict'] == 'mismatch' else 'unknown'), 'detail': r['detail'][:300]})
        if r['verdict'] == 'mismatch':
            mism.append(r)
        elif r['verdict'] == 'refused':
            if r['name'].startswith(('hint_bit_unpack', 'hint_bit_pack')):
                # the loop lemmas need the source-level loop structure (Index / First); a restructured decoder is decided by the Kani window harnesses instead
                hint_fallback = True
            else:
                run.inconclusive.append(f'{r["name"]}: {r["detail"][:200]}')
    # queries that the suite discharged through the session are already recorded; drop those of other properties
    keep = []
    names = ' '.join(r['name'] for r in mine)
    for q in run.queries:
        nm = q.get('name', '')
        if q.get('engine', '').startswith('E2 mir->smt'):
            base = nm.split(' [')[0]
            if base and base in names:
                keep.append(q)
        else:
            keep.append(q)
    run.queries = keep
    run.inconclusive = [m for m in run.inconclusive if any(r['name'].split(' [')[0] in m for r in mine) or not m.startswith(('sign:', 'verify:', 'keygen:', 'derive:', 'sk into', 'pk into', 'expand_'))]
    if extra:
        extra(run, sess, funcs, suite)
    # E1 part
    results = []
    if hint_fallback:
        # the structured codec differential at the real (K, omega) is cheap: with the lemmas gone it runs first; the slow Kani window
        # harnesses (K = 2 windows, K = 3 counts) only run if it finds nothing
        from props import c08 as _c08
        res8, msgs8 = _c08.native(scr)
        run.add_query({'name': 'native codec differential at the real (K, omega) (runs because the hint loop lemmas were refused)', 'engine': 'native (confirmation workload)', 'verdict': 'holds' if set(res8.values()) == {'pass'} else ('sat' if 'fail' in res8.values() else 'unknown'), 'detail': str(msgs8[:2])[:300]}, core=False)
        run.add_query({'name': 'hint_bit_unpack / hint_bit_pack loop lemmas', 'engine': 'E2', 'verdict': 'refused', 'note': 'hint codec restructured; decided by the native differential and the Kani window harnesses (K = 2 windows, K = 3 counts) instead'}, core=False)
        if 'fail' in res8.values():
            mism.append({'name': 'hint_bit_unpack / hint_bit_pack (restructured hint codec): native codec differential against Algorithms 20 / 21', 'detail': str(msgs8[:3])[:300]})
        else:
            e1 = list(e1 or []) + [Harness('verif_kani::c08::' + w, prop, timeout=2400, loop_rules=[(r'hint_bit_unpack::<2>', 12)],
                                           bounds='fallback for the refused loop lemmas: hint_bit_unpack::<2>(omega=8), count bytes + 4-byte window symbolic') for w in ('c08_hint_window_0', 'c08_hint_window_2', 'c08_hint_window_4')]
            e1.append(Harness('verif_kani::c08::c08_hint_k3_counts', prop, timeout=3000, loop_rules=[(r'hint_bit_unpack::<3>', 10)],
                              bounds='fallback for the refused loop lemmas: hint_bit_unpack::<3>(omega=6), the three count bytes and two position bytes symbolic (count patterns that need a middle polynomial)'))
    if e1:
        hs = e1
        if only:
            hs = [h for h in hs if any(o in h.name for o in only)]
        try:
            results = vlib.run_kani(scr, hs, jobs=6)
        except vlib.BuildError as ex:
            # the in-crate harness module no longer compiles (typically: a crate-internal signature changed).  The solver part of E1 is
            # unavailable; the native confirmations below run unconditionally and a reproduced failure is still a violation
            results = []
            tail = str(ex)[-400:].replace('\n', ' ')
            run.add_query({'name': 'Kani harness module builds against this tree', 'engine': 'rustc (Kani build)', 'verdict': 'unknown', 'detail': tail}, core=False)
            run.inconclusive.append('Kani harness module does not build on this tree (changed internal signature?): ' + tail[-200:])
            mism.append({'name': 'wrappers:: Kani harnesses unavailable (build error); native confirmations run unconditionally', 'detail': tail})
        for r in results:
            if r.status == 'failed':
                own, other = wrapc.split_failures(r, prop)
                if not own:
                    r.status = 'success'; r.detail = 'only assertions of other properties failed: ' + '; '.join(d for _, d, _ in other)[:200]
                else:
                    r.detail = f'{prop} assertions failed: ' + '; '.join(d for _, d, _ in own)[:300]
                    mism.append({'name': r.h.name, 'detail': r.detail})
        run.add_kani_results(results)
    # confirmation of mismatches: first at kernel level (scalar counterexamples of closure lemmas), then against the reference implementation
    if mism:
        confirmed = []
        if any('wrappers::' in str(m.get('name', '')) for m in mism):
            from props import c07, c12
            res7, msgs7 = c07.native(scr, list(range(0, 1025)))
            if 'fail' in res7.values():
                confirmed.append(('wrappers-ctx', msgs7[:3]))
            res12, msgs12 = c12.native(scr, [0, 1, 16, 31, 32])
            if 'fail' in res12.values():
                confirmed.append(('wrappers-rng', msgs12[:3]))
        if any(('c08_' in str(m.get('name', ''))) or ('hint_bit_unpack' in str(m.get('name', ''))) or ('sections handed to' in str(m.get('name', ''))) for m in mism):
            from props import c08
            res8, msgs8 = c08.native(scr)
            if 'fail' in res8.values():
                confirmed.append(('codec', msgs8[:3]))
        cases = [c for c in getattr(suite, 'scalar_cases', [])]
        if cases:
            from e2run import run_scalar_cases
            for rel in (False, True):
                nat, oc, out = run_scalar_cases(scr, [(n, a) for n, a, _ in cases], release=rel)
                badc = [(k, v) for k, v in nat.items() if not v[1]]
                if badc:
                    confirmed.append(('kernel', [f'{k[0]}{list(k[1])} = {v[0]} violates its FIPS 204 definition ({"release" if rel else "dev"})' for k, v in badc[:3]]))
                    break
        for what in diff:
            ns, nm = load_for(what, diff_load)
            oc, msgs = diffnative.run(scr, what, seed=seed + 1, n_seeds=ns, n_msgs=nm)
            run.add_query({'name': f'native differential `{what}` against the spec-literal reference ({ns} seeds x {nm} messages x 3 sets)', 'engine': 'native replay', 'verdict': 'holds' if oc == 'pass' else ('sat' if oc == 'fail' else 'unknown'), 'detail': msgs[:3]}, core=False)
            if oc == 'fail':
                confirmed.append((what, msgs))
        path = vlib.save_replay(prop, 'skeleton', {'property': prop, 'kind': 'diff', 'diff': list(diff), 'load': list(diff_load), 'seed': seed + 1,
                                                   'mismatches': [{'name': m['name'], 'detail': m['detail']} for m in mism], 'confirmed': [(w, m[:4]) for w, m in confirmed],
                                                   'scalar_cases': [[n, list(a)] for n, a, _ in getattr(suite, 'scalar_cases', [])], 'codec': any(w == 'codec' for w, _ in confirmed), 'wrappers': any(w.startswith('wrappers') for w, _ in confirmed)})
        if confirmed:
            run.violation('skeleton-' + mism[0]['name'][:60], f'{mism[0]["name"]}: {mism[0]["detail"][:300]} ; confirmed natively: {confirmed[0][0]}: {confirmed[0][1][:2]}', path)
        else:
            run.inconclusive.append(f'{len(mism)} obligation(s) do not hold but the native differential tests {list(diff)} found no disagreement: {mism[0]["name"]}: {mism[0]["detail"][:300]}')
    sk = [q for q in run.queries if q.get('engine') == 'E2 skeleton/lemma']
    sm = [q for q in run.queries if str(q.get('engine', '')).startswith(('E2 mir->smt', 'SMT'))]
    kn = [q for q in run.queries if q.get('harness')]
    run.samples = [{'obligation': q.get('name') or q.get('harness'), 'engine': q.get('engine'), 'verdict': q.get('verdict'), 'solver_s': q.get('solver_s'), 'detail': str(q.get('detail', ''))[:160]} for q in sk[:6] + sm[:4] + kn[:4]]
    run.extra['bounds'] = ['skeleton obligations: unbounded in K, L, omega, message and context length (calls uninterpreted); loops cut after one iteration, the rejection loop analysed as one iteration from an arbitrary counter',
                           'closure / kernel lemmas: every coefficient value in the range the producer guarantees (ranges listed per lemma); both gamma2 values',
                           'Kani harnesses: see per-harness bounds'] + sorted({str(q.get('bounds')) for q in run.queries if q.get('bounds')})
    return mism


def replay_diff(prop, scr, path):
    p = json.load(open(path))
    bad = False
    if p.get('scalar_cases'):
        from e2run import run_scalar_cases
        for rel in (False, True):
            nat, oc, out = run_scalar_cases(scr, [(n, a) for n, a in p['scalar_cases']], release=rel)
            vlib.log(f'replay scalar cases ({"release" if rel else "dev"}): {nat}')
            if any(not v[1] for v in nat.values()):
                bad = True
    if p.get('wrappers'):
        from props import c07, c12
        res7, msgs7 = c07.native(scr, list(range(0, 1025)))
        res12, msgs12 = c12.native(scr, [0, 1, 16, 31, 32])
        vlib.log(f'replay wrappers: ctx {res7} {msgs7[:2]} rng {res12} {msgs12[:2]}')
        if 'fail' in res7.values() or 'fail' in res12.values():
            bad = True
    if p.get('codec'):
        from props import c08
        res8, msgs8 = c08.native(scr)
        vlib.log(f'replay codec differential: {res8} {msgs8[:3]}')
        if 'fail' in res8.values():
            bad = True
    for what in p['diff']:
        ns, nm = load_for(what, tuple(p['load']))
        oc, msgs = diffnative.run(scr, what, seed=p.get('seed', 1), n_seeds=ns, n_msgs=nm)
        vlib.log(f'replay diff {what}: {oc} {msgs[:3]}')
        if oc == 'fail':
            bad = True
        elif oc == 'error':
            return 2
    if bad:
        vlib.log(f'VIOLATION property={prop} replay={path}')
        return 1
    return 0
