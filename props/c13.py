"""C13 — no input can make the library panic (checked build: debug assertions + overflow checks on).

The panic sites are split by where they live:
 * scalar kernels and per-coefficient closures: every MIR `assert` / panic path is an obligation of C15 / C18 / the closure lemmas;
 * codecs on arbitrary bytes: the Kani harnesses of C08 / C10 run with all default checks (bounds, overflow, debug_assert);
 * transforms: C18 (no i32/i64 overflow for any in-range input, incl. adversarial z);
 * the bodies of the big functions (verify_internal, sign_internal, key_gen_internal, private_to_public_key, expand_*, into_bytes):
   decided HERE - every panic / assert site of the checked MIR of these bodies is enumerated by the skeleton executor and must be
   unsatisfiable under the concrete parameters of each set and the contracts of the callees;
 * a native hostile-input workload through the public API (dev profile) is the replay vehicle for any open site."""
import json
import os
import re
import z3
import e2
import mir
import skel
import vlib
from e2run import E2Session
from vlib import Harness

LEVEL = 'model_checking'
Q = 8380417
SETS = {'ml_dsa_44': dict(K=4, L=4, beta=78, gamma1=1 << 17, gamma2=(Q - 1) // 88, omega=80, tau=39, eta=2, LAMBDA_DIV4=32),
        'ml_dsa_65': dict(K=6, L=5, beta=196, gamma1=1 << 19, gamma2=(Q - 1) // 32, omega=55, tau=49, eta=4, LAMBDA_DIV4=48),
        'ml_dsa_87': dict(K=8, L=7, beta=120, gamma1=1 << 19, gamma2=(Q - 1) // 32, omega=75, tau=60, eta=2, LAMBDA_DIV4=64)}
TRUSTED = ['MIR dump with -C debug-assertions=on -C overflow-checks=on', 'skeleton executor: callee bodies are uninterpreted; their own panic sites are obligations of C08/C10/C15/C18',
           'contracts used: infinity_norm returns a value in [0, q/2]; ||z|| <= gamma1 for z returned by sig_decode (bit_unpack range, C08); kappa <= 65535 - l (more than 9362 consecutive rejections are outside the claim)',
           'samplers (sample_in_ball, rej_*_poly, expand_mask) are exercised only by the native workload in this tier']
BODIES = ['verify_internal', 'sign_internal', 'key_gen_internal', 'private_to_public_key', 'expand_private', 'expand_public', 'key_gen']


def site_inventory(run, sess, funcs):
    open_sites = []
    names = BODIES + [n for n in funcs if n.endswith('::into_bytes') and n.startswith('ml_dsa_')] + [n for n in funcs if re.match(r'^ml_dsa_\d\d::<impl at .*>::(try_sign_with_rng|try_hash_sign_with_rng|verify|hash_verify|try_from_bytes|get_public_key|try_keygen_with_rng|keygen_from_seed)$', n)]
    total = 0
    for fn in names:
        if fn not in funcs:
            run.inconclusive.append(f'C13: body {fn} not found (anchor)'); continue
        for sname, P in SETS.items():
            if fn.startswith('ml_dsa_') and not fn.startswith(sname):
                continue
            params = {'K': P['K'], 'L': P['L'], 'CTEST': False, 'LAMBDA_DIV4': P['LAMBDA_DIV4']}
            try:
                E, paths = skel.extract(funcs, fn, params=params)
            except e2.Refuse as ex:
                run.inconclusive.append(f'C13: {fn}: translator refused: {ex}'); break
            facts = []
            for k, v in E.inputs.items():
                if k.startswith('arg:') and k[4:] in P and isinstance(v, e2.Val) and v.ty == 'i32':
                    facts.append(v.t == P[k[4:]])
                if k == 'kappa' or k.endswith('kappa_ctr'):
                    pass
            for cid, rec in E.call_records.items():
                if rec['callee'] == 'infinity_norm':
                    r = z3.BitVec(rec['result'], 32)
                    facts += [r >= 0, r <= Q // 2]
                    if 'sig_decode' in rec['args'][0]:
                        facts.append(r <= P['gamma1'])
            seen = set()
            for o in getattr(E, 'obligations', []):
                key = (o['fn'], o['bb'], o['msg'])
                if key in seen:
                    continue
                seen.add(key)
                total += 1
                import zutil
                r = zutil.check(*facts, o['cond'], timeout_s=20)
                verdict = 'unsat' if r == z3.unsat else ('sat' if r == z3.sat else 'unknown')
                run.add_query({'name': f'[{sname}] {fn} {o["bb"]}: panic site `{o["msg"]}` unreachable', 'engine': 'E2 skeleton (calls uninterpreted, callee contracts)', 'verdict': verdict, 'kind': o['kind']})
                if verdict != 'unsat':
                    open_sites.append((sname, fn, o['bb'], o['msg'], verdict))
            if not fn.startswith('ml_dsa_') and fn not in ('verify_internal', 'sign_internal'):
                pass
        run.functions.append('MIR ' + fn + ' (panic-site inventory)')
    run.extra['panic_sites_enumerated'] = total
    return open_sites


def native(scr):
    src = open(os.path.join(vlib.VERIF, 'replay', 'c13_hostile.rs')).read()
    oc, out = vlib.native_test(scr, src, 'c13_hostile_inputs', release=False, timeout=2400)
    locs = sorted(set(re.findall(r'panicked at (src/[\w/\.]+:\d+):\d+', out)))
    msgs = [l.strip() for l in out.splitlines() if l.startswith('C13 PANIC')]
    return oc, locs, msgs, out


def run(run, scr, tier, seed, only=None):
    sess = E2Session(run, scr, tier)
    run.assumptions += TRUSTED
    funcs = mir.parse(mir.dump(scr, checked=True))
    open_sites = []
    try:
        open_sites = site_inventory(run, sess, funcs)
    except e2.Refuse as ex:
        run.inconclusive.append('E2 refused: ' + str(ex))
    # per-coefficient closures and scalar kernels: every no-panic obligation and every range / value post-condition that a callee's
    # self-check relies on (power2round input, bit_pack ranges, reductions' documented domains) - the lemma suite shared with C01-C11
    suite_bad = []
    try:
        import skelsuite
        sess.quiet_sat = True
        suite = skelsuite.Suite(run, sess, funcs, scr)
        allres = suite.run_all()
        keepq = []
        for q in run.queries:      # the suite's solver queries are recorded through its own result list below
            if not str(q.get('engine', '')).startswith('E2 mir->smt'):
                keepq.append(q)
        run.queries = keepq
        run.inconclusive = [m for m in run.inconclusive if not m.startswith(('sign:', 'verify:', 'keygen:', 'derive:', 'sk into', 'pk into', 'expand_'))]
        for r in allres:
            if r['verdict'] == 'refused' or r['name'].startswith('hint_bit_'):
                continue
            run.add_query({'name': 'closure / kernel lemma: ' + r['name'], 'engine': 'E2 skeleton/lemma', 'verdict': 'holds' if r['verdict'] == 'holds' else 'sat', 'detail': r['detail'][:200]}, core=r['verdict'] == 'holds')
            if r['verdict'] == 'mismatch':
                suite_bad.append(r)
    except e2.Refuse as ex:
        run.inconclusive.append('E2 refused (lemma suite): ' + str(ex))
    # decoders on arbitrary bytes: loop-step lemmas of hint_bit_unpack incl. every index-bounds / overflow obligation of its checked MIR
    # under the loop invariant (K, omega symbolic); if the decoder was restructured so that the lemmas do not apply, the Kani window harness decides
    import hintlemmas
    hres = []
    try:
        hintlemmas.run(funcs, hres)
        run.functions.append('MIR hint_bit_unpack (loop-step lemmas with panic obligations)')
    except Exception as ex:
        hres = [{'name': 'hint_bit_unpack loop lemmas', 'verdict': 'refused', 'detail': repr(ex)}]
    hint_bad = [r for r in hres if r['verdict'] == 'mismatch']
    hint_refused = any(r['verdict'] == 'refused' for r in hres)
    for r in hres:
        run.add_query({'name': r['name'], 'engine': 'E2 loop-step lemma', 'verdict': 'holds' if r['verdict'] == 'holds' else ('sat' if r['verdict'] == 'mismatch' else 'refused'), 'detail': r['detail'][:300]}, core=r['verdict'] != 'refused')
    hs = []
    # the native hostile-input workload runs first: a reproduced panic makes the slow window harnesses unnecessary
    oc, locs, msgs, out = native(scr)
    pre_codec = None
    if (hint_refused or hint_bad) and not locs:
        from props import c08 as _c08
        pre_codec = _c08.native(scr)
    early_panic = bool(locs) or bool(pre_codec and any('PANICS' in m for m in pre_codec[1]))
    if (hint_refused or hint_bad or tier == 'thorough') and not (early_panic and tier != 'thorough'):
        win = ['c08_hint_window_0', 'c08_hint_window_2', 'c08_hint_window_4']
        hs = [Harness('verif_kani::c08::' + w, 'C13', timeout=2400, loop_rules=[(r'hint_bit_unpack::<2>', 12)],
                      bounds='hint_bit_unpack::<2>(omega = 8): both count bytes and a 4-byte index window symbolic; every index / overflow / debug assertion of the real decoder') for w in win]
    if hs:
        hs.append(Harness('verif_kani::c08::c08_hint_k3_counts', 'C13', timeout=3000, loop_rules=[(r'hint_bit_unpack::<3>', 10)], bounds='hint_bit_unpack::<3>(omega = 6): three count bytes and two position bytes symbolic'))
    if tier == 'thorough':
        hs += [Harness('verif_kani::c10::c10_bit_unpack_eta2', 'C13', timeout=1800, bounds='bit_unpack on every 96-byte string, all default checks')]
    kres = vlib.run_kani(scr, hs, jobs=2)
    decoder_panics = []
    for r in kres:
        if r.status == 'failed':
            own = [(n, d, l) for (n, d, l) in r.failed if not re.match(r'^C\d\d', d)]
            if own:
                r.detail = 'panic-class checks failed: ' + '; '.join(f'{d} @ {l}' for _, d, l in own)[:300]
                decoder_panics.append(r)
            else:
                r.status = 'success'; r.detail = 'only functional (C08-tagged) assertions failed; no panic-class check failed'
    run.add_kani_results(kres)
    run.add_query({'name': 'native hostile-input workload through the public API (dev profile: debug assertions + overflow checks), all three sets', 'engine': 'native replay workload', 'verdict': 'holds' if oc == 'pass' else ('sat' if oc == 'fail' else 'unknown'), 'panic_locations': locs, 'trivial': True}, core=False)
    if oc == 'error':
        run.inconclusive.append('native hostile workload failed to build/run: ' + out[-600:])
    # every natively observed panic location is a violation, keyed by its source location's *function*, so that a different site is a different finding
    src_lines = {}
    for loc in locs:
        f, ln = loc.rsplit(':', 1)
        try:
            text = open(os.path.join(scr.repo, f)).read().splitlines()[int(ln) - 1].strip()
        except Exception:
            text = ''
        key = 'panic:' + f + ':' + re.sub(r'\s+', ' ', text)[:60]
        path = vlib.save_replay('C13', 'hostile', {'property': 'C13', 'kind': 'hostile', 'location': loc, 'source_line': text, 'cases': [m for m in msgs][:6]})
        run.violation(key, f'public API panics at {loc} (`{text}`) on accepted hostile input: {msgs[:2]}', path)
    if hint_bad and not decoder_panics and not locs:
        from props import c08
        res8, msgs8 = pre_codec if pre_codec else c08.native(scr)
        path = vlib.save_replay('C13', 'decoder', {'property': 'C13', 'kind': 'decoder', 'lemmas': [(r['name'], r['detail']) for r in hint_bad], 'native': res8})
        if any('PANICS' in m for m in msgs8):
            run.violation('panic:decoder:hint_bit_unpack', f'hint decoder panics on hostile bytes: {hint_bad[0]["detail"][:200]}; native: {msgs8[:2]}', path)
        # a functional (non-panicking) deviation of the decoder is C08's business, not C13's
    if decoder_panics and not locs:
        # confirm through the structured codec differential (hostile hint sections at the real (K, omega))
        from props import c08
        res8, msgs8 = c08.native(scr)
        path = vlib.save_replay('C13', 'decoder', {'property': 'C13', 'kind': 'decoder', 'harness': [r.h.name for r in decoder_panics], 'detail': [r.detail for r in decoder_panics], 'native': res8})
        if 'fail' in res8.values():
            run.violation('panic:decoder:' + decoder_panics[0].detail[:60], f'decoder panics on hostile bytes: {decoder_panics[0].detail}; native: {msgs8[:2]} {res8}', path)
        else:
            run.inconclusive.append(f'decoder harness reports a reachable panic ({decoder_panics[0].detail}) that the native codec workload does not reproduce')
    if suite_bad and not locs:
        # a lemma that no longer holds is a panic only if a self-check downstream fires: directed native searches in an optimised build
        # with debug assertions and overflow checks on (key generation + derivation over 20000 seeds, signing, (de)serialisation)
        import diffnative
        found = []
        for what, ns, nm in (('keygen_search', 20000, 0), ('sign', 2, 40), ('serdes', 2, 0)):
            oc2, msgs2 = diffnative.run(scr, what, seed=seed + 1, n_seeds=ns, n_msgs=nm, checked=True)
            pan = [m for m in msgs2 if 'panics' in m or 'panicked at src/' in m]
            run.add_query({'name': f'directed native search `{what}` (optimised build with debug assertions + overflow checks)', 'engine': 'native replay', 'verdict': 'sat' if pan else ('holds' if oc2 == 'pass' else 'unknown'), 'detail': str(pan[:2])[:300]}, core=False)
            if pan:
                found.append((what, pan))
        if found:
            what, pan = found[0]
            ploc = sorted(set(re.findall(r'panicked at (src/[\w/\.]+:\d+)', ' '.join(pan))))
            path = vlib.save_replay('C13', 'lemma', {'property': 'C13', 'kind': 'lemma', 'search': what, 'seed': seed + 1, 'lemmas': [(r['name'], r['detail'][:200]) for r in suite_bad[:6]], 'panics': pan[:6]})
            run.violation('panic:lemma:' + (ploc[0] if ploc else suite_bad[0]['name'][:50]), f'lemma `{suite_bad[0]["name"][:120]}` no longer holds and a self-check fires on an accepted input: {pan[:2]}', path)
        else:
            run.extra['functional_lemma_mismatches_without_panic'] = [r['name'][:120] for r in suite_bad[:8]]
            vlib.log(f'  {len(suite_bad)} lemma(s) do not hold but no panic was found by the directed searches: functional deviations are decided by C01-C11/C15/C18, not by C13')
    reported = ' '.join(locs)
    for (sname, fn, bb, msg, verdict) in open_sites:
        if not locs:
            run.inconclusive.append(f'open panic site [{sname}] {fn}:{bb} `{msg}` ({verdict}) not reproduced by the native workload')
    run.samples = [{'obligation': q.get('name'), 'verdict': q.get('verdict')} for q in run.queries[:14]]
    return run.finish(
        rule='one obligation per (parameter set, panic / assert site) of the bodies of the big functions: unreachable under the concrete parameters and the callee contracts; sites inside callees are obligations of C08/C10/C15/C18',
        checker_cmd='./check C13', trusted_base=TRUSTED)


def replay(run, scr, path):
    p = json.load(open(path))
    if p.get('kind') == 'lemma':
        import diffnative
        ns, nm = {'keygen_search': (20000, 0), 'sign': (2, 40), 'serdes': (2, 0)}[p['search']]
        oc2, msgs2 = diffnative.run(scr, p['search'], seed=p.get('seed', 1), n_seeds=ns, n_msgs=nm, checked=True)
        pan = [m for m in msgs2 if 'panics' in m or 'panicked at src/' in m]
        vlib.log(f'replay {path}: {oc2} {pan[:3]}')
        if pan:
            vlib.log(f'VIOLATION property=C13 replay={path}')
            return 1
        return 0 if oc2 == 'pass' else 2
    if p.get('kind') == 'decoder':
        from props import c08
        res8, msgs8 = c08.native(scr)
        vlib.log(f'replay {path}: {res8} {msgs8[:3]}')
        if 'fail' in res8.values():
            vlib.log(f'VIOLATION property=C13 replay={path}')
            return 1
        return 0 if set(res8.values()) == {'pass'} else 2
    oc, locs, msgs, out = native(scr)
    vlib.log(f'replay {path}: {oc} {locs} {msgs[:3]}')
    if oc == 'fail':
        vlib.log(f'VIOLATION property=C13 replay={path}')
        return 1
    return 0 if oc == 'pass' else 2
