"""C14 - secret-independent execution in constant-time test mode, decided at the MIR level (lib/ctflow.py).

Claimed part: for the bodies of the crate, instantiated with CTEST = true, no branch condition, array index / slice position
or early-exit library call depends on data derived from the random generator (2-safety queries, one per observation), for
key generation + signing as a pipeline and for each secret-handling kernel alone with every coefficient input secret.
Not claimed: the compiled artefact (instruction selection, core's Iterator::max / abs, sha3, zeroize); those are assumptions.
A finding is reported as a violation only after the native trace probe (valgrind instruction counts of the real release
build of the kernel for different secrets, identical public inputs) shows differing executions."""
import json
import os
import re
import time
import z3
import e2
import mir
import vlib
import ctflow
import ctnative

LEVEL = 'other'
TRUSTED = ['rustc nightly MIR dump (release flags: debug-assertions off, overflow-checks off)', 'E2 translator (skeleton mode, scalar crate functions inlined) and the taint / 2-safety layer lib/ctflow.py', 'z3 5.1.0',
           'bodies outside the crate are constant-time in their content: core iterator adaptors and consumers (map, zip, enumerate, max, sum, fold, for_each, all on success), i32::abs, Ord::max, sha3 / sha2, zeroize',
           'rustc / LLVM preserve source-level data independence (not checked: e.g. a select turned into a branch)',
           'tuple fields of type usize that iterator adaptors hand to closures are public counters',
           'range checks are constant-time on success only (property statement): closures consumed by `all` / `any` and is_in_range are analysed under the assumption that the check passes',
           'executions that panic or return Err are outside (C13 / the fallible API)']
PIPELINE = [('key_gen_internal', {'xi': True, 'eta': False}), ('sign_internal', {'esk': True, 'rnd': True})]
KERNELS = [('infinity_norm', {'w': True}), ('is_in_range', {'w': True}), ('power2round', {'r': True}), ('decompose', {'r': True}), ('high_bits', {'r': True}), ('low_bits', {'r': True}),
           ('make_hint', {'z': True, 'r': True}), ('bit_pack', {'w': True}), ('simple_bit_pack', {'w': True}), ('hint_bit_pack', {'h': True}), ('ntt', {'w': True}), ('inv_ntt', {'w_hat': True}),
           ('mat_vec_mul', {'a_hat': True, 'u_hat': True}), ('to_mont', {'vec_a': True}), ('add_vector_ntt', {'v_hat': True, 'w_hat': True}), ('center_mod', {'m': True}), ('partial_reduce32', {'a': True}),
           ('full_reduce32', {'a': True}), ('partial_reduce64', {'a': True}), ('mont_reduce', {'a': True}), ('w1_encode', {'w1': True}), ('expand_mask', {'rho': True}), ('sig_encode', {'c_tilde': True, 'z': True, 'h': True}),
           ('sk_encode', {'rho': True, 'k': True, 'tr': True, 's_1': True, 's_2': True, 't_0': True}), ('sample_in_ball', {'rho': True}), ('expand_s', {'rho': True}), ('expand_a', {'rho': True})]
TOLERANCE = {'sign_ct': 2000, 'pipeline': 2000}     # measured on the pinned tree: +-30 instructions (codegen of Iterator::max inside the inlined signing loop)


def model_values(findings):
    vals = set()
    for x in findings:
        for a, b in (x.get('model') or {}).values():
            for v in (a, b):
                try:
                    n = int(v)
                    if n >= 1 << 31:
                        n -= 1 << 32
                    if abs(n) < (1 << 31):
                        vals.add(n)
                except Exception:  # noqa: BLE001
                    pass
    return sorted(vals)[:6]


def probe_kernels(findings):
    kernels = []
    for x in findings:
        for k in ctnative.kernels_for(x['fn']):
            k = 'sign_ct' if k == 'pipeline' and x['fn'].startswith('sign_internal') else k
            if k not in kernels:
                kernels.append(k)
    if any(x['fn'].startswith(('key_gen_internal', 'sign_internal')) for x in findings):
        kernels += [k for k in ('keygen_ct', 'sign_ct') if k not in kernels]
    return kernels


def native_confirm(scr, kernels, vals):
    """source level first (coverage region counters of the crate's own code: the observation the property names), then the
    instruction counts of the optimised build -> (differences | None, summary)"""
    diffs = []
    res, out = ctnative.probe_cov(scr, kernels, extra_vals=vals)
    summary = {}
    if res is None:
        summary['coverage'] = 'instrumented build failed: ' + out[-300:]
    else:
        cd = ctnative.cov_differing(res)
        summary['coverage'] = f'{sum(1 for d in res.values() for r in d.values() if r is not None)} runs, {len(cd)} function(s) with differing region counts'
        for k, fn, fa, fb in cd[:6]:
            diffs.append({'oracle': 'coverage region counters (source-level branch trace)', 'kernel': k, 'function': fn, 'input_a': list(fa), 'input_b': list(fb)})
    res2, out2 = ctnative.probe(scr, kernels, extra_vals=vals)
    if res2 is None:
        summary['instructions'] = 'probe build failed: ' + out2[-300:]
    else:
        summary['instructions'] = {k: sorted({n for n in d.values() if n is not None})[:4] for k, d in res2.items()}
        for k, a, b in ctnative.differing(res2):
            if abs(a[1] - b[1]) > TOLERANCE.get(k, 0):
                diffs.append({'oracle': 'valgrind instruction count (release build)', 'kernel': k, 'function': k, 'input_a': list(a[0]), 'instructions_a': a[1], 'input_b': list(b[0]), 'instructions_b': b[1]})
    # address oracle: data-access trace of the target between two markers (valgrind lackey); kernel probes only
    mk = [k for k in kernels if k not in ctnative.MEM_EXCLUDE]
    res3 = None
    if mk and not diffs:
        res3, out3 = ctnative.probe_mem(scr, mk, extra_vals=vals)
        if res3 is None:
            summary['memory'] = 'probe build failed: ' + out3[-300:]
        else:
            summary['memory'] = {k: sorted({r for r in d.values() if r is not None})[:3] for k, d in res3.items()}
            for k, a, b in ctnative.mem_differing(res3):
                diffs.append({'oracle': 'data-access trace (valgrind lackey, between markers)', 'kernel': k, 'function': k, 'input_a': list(a[0]), 'input_b': list(b[0]), 'trace_a': list(a[1]), 'trace_b': list(b[1])})
    if res is None and res2 is None and res3 is None:
        return None, summary
    return diffs, summary


def run(run, scr, tier, seed, only=None):
    run.assumptions += TRUSTED
    text = mir.dump(scr, checked=False)
    funcs = mir.parse(text)
    entries = PIPELINE + KERNELS
    missing = [fn for fn, _ in entries if fn not in funcs]
    if missing:
        run.inconclusive.append(f'C14: anchor function(s) not found in the MIR dump: {missing}')
    # the secret roots are addressed by parameter name: if a name is gone (signature changed), every non-scalar parameter is secret
    fixed = []
    for fn, roots in entries:
        if fn not in funcs:
            continue
        f = funcs[fn]
        names = [f.debug.get(l, l) for l, t in f.params]
        if any(v and k not in names for k, v in roots.items()):
            roots = {f.debug.get(l, l): True for l, t in f.params if not (t in e2.INT or t == 'bool')}
            run.assumptions.append(f'{fn}: the named secret parameters were not found; every non-scalar parameter is treated as secret')
        fixed.append((fn, roots))
    entries = fixed
    ctflow.QUERIES.clear()
    # negative control (vacuity witness): without the test mode the rejection branches of Sign are secret-dependent and must be seen
    ctl, _ = ctflow.analyse_program(funcs, [(f, r) for f, r in entries if f == 'sign_internal'], {'CTEST': False})
    seen = [x for x in ctl if x['fn'] == 'sign_internal' and x['verdict'] == 'dependent']
    run.add_query({'name': 'negative control: with CTEST = false the rejection branches of sign_internal are reported as secret-dependent', 'engine': 'E2 skeleton + taint + z3 self-composition', 'verdict': 'holds' if len(seen) >= 2 else 'unknown', 'trivial': True, 'detail': f'{len(seen)} dependent branches'}, core=False)
    if len(seen) < 2:
        run.inconclusive.append(f'C14 negative control: only {len(seen)} secret-dependent branch(es) found in sign_internal with CTEST = false (expected the two rejection tests): the analysis does not see the signing loop')
    ctflow.QUERIES.clear()
    t0 = time.time()
    findings = []; stats = {}
    sets = [{'CTEST': True}]
    for params in sets:
        fnd, st = ctflow.analyse_program(funcs, [(f, r) for f, r in entries if f in funcs], params, log=vlib.log)
        findings += fnd; stats.update(st)
    dt = time.time() - t0
    for fn in sorted(stats):
        run.functions.append('MIR ' + fn + ' (release flags, CTEST = true)')
    nq = len(ctflow.QUERIES)
    by = {}
    for q in ctflow.QUERIES:
        by[q['verdict']] = by.get(q['verdict'], 0) + 1
    nobs = sum(s.get('branches', 0) + s.get('indices', 0) for s in stats.values())
    run.add_query({'name': f'2-safety over {len(stats)} function bodies: {nobs} symbolic branch / index observations, {nq} of them mention secret-derived symbols and were decided by the solver ({by}); the rest are syntactically public',
                   'engine': 'E2 skeleton + taint + z3 self-composition', 'verdict': 'holds' if not findings else 'sat', 'solver_s': round(sum(q['solver_s'] for q in ctflow.QUERIES), 2), 'wall_s': round(dt, 1)})
    for q in ctflow.QUERIES:
        run.add_query({'name': f'{q["fn"]} {q["bb"]}: {q["kind"]} independent of secret data', 'engine': 'z3 self-composition (2-safety)', 'verdict': 'holds' if q['verdict'] == 'constant' else ('sat' if q['verdict'] == 'dependent' else 'unknown'), 'solver_s': q['solver_s']})
    refused = [x for x in findings if x['kind'] == 'refused']
    for x in refused:
        run.inconclusive.append(f'{x["fn"]}: {x["what"][:200]}')
    unknown = [x for x in findings if x['verdict'] == 'unknown' and x['kind'] != 'refused']
    for x in unknown:
        run.inconclusive.append(f'{x["fn"]} {x["bb"]}: solver gave no verdict on {x["what"][:120]}')
    real = [x for x in findings if x['verdict'] == 'dependent']
    run.extra['analysed_functions'] = len(stats)
    run.extra['tainted_roots'] = {fn: sorted(k for k, v in s.get('roots', {}).items() if v) for fn, s in list(stats.items())[:40]}
    if real:
        for x in real[:8]:
            vlib.log(f'  [C14] secret-dependent {x["kind"]} in {x["fn"]} {x["bb"]}: {x["what"][:160]} model={str(x["model"])[:120]}')
        kernels = probe_kernels(real)
        diffs, counts = native_confirm(scr, kernels, model_values(real))
        run.add_query({'name': f'native trace probes of kernels {kernels} for {len(ctnative.FILLS)} + directed secret inputs with identical public inputs', 'engine': 'native replay (coverage region counters; valgrind instruction counts)', 'verdict': 'sat' if diffs else ('unknown' if diffs is None else 'holds'), 'detail': str(counts)[:500]}, core=False)
        payload = {'property': 'C14', 'kind': 'trace', 'findings': [{k: (str(v)[:300] if k in ('what', 'model') else v) for k, v in x.items()} for x in real[:12]], 'kernels': kernels, 'extra_vals': model_values(real), 'diffs': diffs}
        path = vlib.save_replay('C14', 'trace', payload)
        if diffs:
            d = diffs[0]
            more = f'{d["instructions_a"]} vs {d["instructions_b"]} instructions' if 'instructions_a' in d else (f'data-access traces {d["trace_a"]} vs {d["trace_b"]} (digest, length)' if 'trace_a' in d else f'region counts of `{d["function"]}` differ')
            run.violation('ct:' + real[0]['fn'].split('::{closure')[0] + ':' + real[0]['kind'], f'secret-dependent {real[0]["kind"]} in {real[0]["fn"]} {real[0]["bb"]} ({real[0]["what"][:140]}); natively ({d["oracle"]}) probe `{d["kernel"]}`: {more} for inputs {d["input_a"]} and {d["input_b"]} with the same public inputs', path)
        elif diffs is None:
            run.inconclusive.append('C14: native probes unavailable: ' + str(counts)[:300])
        else:
            run.inconclusive.append(f'{len(real)} secret-dependent observation(s) at the MIR level (first: {real[0]["fn"]} {real[0]["bb"]}: {real[0]["what"][:140]}) but neither the coverage counters nor the instruction counts of {kernels} differ (coverage counters, instruction counts and data-access traces of the probes agree)')
    run.samples = [{'obligation': q.get('name'), 'verdict': q.get('verdict'), 'solver_s': q.get('solver_s')} for q in run.queries[:12]]
    run.extra['bounds'] = ['every body reachable from key_gen_internal / sign_internal with CTEST = true plus the listed kernels alone; K, L and the scalar parameters symbolic (public)',
                           'loops: one iteration from a havocked loop state (locals assigned in the loop replaced by fresh symbols, taint of loop-carried values iterated to a fixed point); a loop whose back edge is infeasible is not havocked',
                           'calls into core / sha3 uninterpreted: result tainted iff an argument is; shape (length, iterator exhaustion) tainted only through Range bounds and content-dependent adaptors',
                           'observation level = MIR of the release configuration; the compiled artefact is outside']
    return run.finish(
        rule='one self-composition query per branch / index observation that mentions a secret-derived symbol: two executions agreeing on all public symbols, both on the path and passing the range checks, cannot differ in the observed value',
        checker_cmd='./check C14 (E2 on the release-flag MIR dump of the scratch copy; lib/ctflow.py; native probe lib/ctnative.py only on findings)', trusted_base=TRUSTED,
        explanation='MIR-level non-interference only; the whole-pipeline trace of the compiled artefact (through SHAKE, with the compiler\'s instruction selection) is not decided. See DESIGN.md 11.6.')


def replay(run, scr, path):
    p = json.load(open(path))
    diffs, summary = native_confirm(scr, p.get('kernels') or ['center_mod'], p.get('extra_vals') or [])
    vlib.log(f'replay {path}: {str(diffs)[:300]} {str(summary)[:200]}')
    if diffs is None:
        return 2
    if diffs:
        vlib.log(f'VIOLATION property=C14 replay={path}')
        return 1
    return 0
