"""C01 — honest signatures always verify (compositional: hint duality lemmas on the real kernels, identical message
representative and commitment transcript on both sides, codec round trip, key provenance)."""
import z3
import vlib
from vlib import Harness
from props import skelprops

LEVEL = 'model_checking'


def run(run, scr, tier, seed, only=None):
    run.assumptions += skelprops.TRUSTED + [
        'composition (pen and paper, each link solver-decided): signer emits (c~, z, h) only on the accept path, where ||z|| < gamma1-beta, ||r0|| < gamma2-beta, ||ct0|| < gamma2, weight(h) <= omega (C03 skeleton); '
        'then w1 = HighBits(w) = HighBits(w - cs2) (lemma A1) = UseHint(h, w - cs2 + ct0) (lemma A2); the verifier computes w\'approx = Az - c t1 2^d = w - cs2 + ct0 (ring identity, algebra = C18), applies the same UseHint closure, '
        'absorbs the same mu and w1Encode transcript (skeletons of both sides), so c~\' = c~; sigDecode(sigEncode(x)) = x (C08); ||c s||inf <= beta for tau-sparse +-1 challenges is a two-line counting argument',
        'key provenances: generated / round-tripped / derived key structs are field-wise equal (C09, C11)']
    e1 = [Harness('verif_kani::c01::c01_a1_highbits_stable', 'C01', timeout=900, bounds='every w, cs2 in Z_q with |cs2| <= beta, all three (gamma2, beta)'),
          Harness('verif_kani::c01::c01_a2_hint_duality', 'C01', timeout=900, bounds='every unreduced x = w - cs2 in (-q, q), every ct0 with |ct0| < gamma2, all three sets'),
          Harness('verif_kani::c01::c01_a2_negative_control', 'C01', timeout=900, bounds='same, side condition relaxed by 2: the cover must be reachable'),
          Harness('verif_kani::c01::c01_use_hint_flips', 'C01', timeout=900, bounds='every r in Z_q, both gamma2')]
    skelprops.run_prop(run, scr, tier, seed, 'C01', e1=e1, diff=('sign', 'derive', 'roundtrip_search'), diff_load=(2, 60), only=only)
    return run.finish(
        rule='lemma obligations (Kani, whole coefficient domain) + skeleton obligations of sign_internal / verify_internal / key paths tagged C01 (unbounded in K, L, message and context length)',
        checker_cmd='./check C01', trusted_base=skelprops.TRUSTED)


def replay(run, scr, path):
    return skelprops.replay_diff('C01', scr, path)
