"""C04 — key generation is exactly the FIPS 204 function of the 32-byte seed (translation validation against Algorithms 1, 6)."""
import vlib
from props import skelprops, wrapc

LEVEL = 'translation_validation'


def run(run, scr, tier, seed, only=None):
    run.assumptions += skelprops.TRUSTED + ['ExpandA / ExpandS / Power2Round / pkEncode are uninterpreted here (Power2Round, CoeffFrom*: C15; codecs: C08)', 'serialised output = pkEncode / skEncode of the struct fields: into_bytes obligations (tag C04/C09) + C18 transform lemmas']
    e1 = wrapc.harnesses(['keygen'], 'C04')
    skelprops.run_prop(run, scr, tier, seed, 'C04', e1=e1, diff=('keygen', 'keygen_search'), diff_load=(6, 0), only=only)
    return run.finish(
        rule='obligations: call sequence / argument provenance of key_gen_internal equal Algorithm 6 (H(xi||k||l) split 32/64/32 into rho, rho\', K; ExpandS(rho\'), ExpandA(rho); t; Power2Round; tr = H(pkEncode(rho,t1),64)); '
             'returned structs hold the prescribed values; closures equal the FIPS formulas (SMT); RNG-driven entry point = seeded entry point on the drawn bytes (Kani)',
        checker_cmd='./check C04', trusted_base=skelprops.TRUSTED)


def replay(run, scr, path):
    return skelprops.replay_diff('C04', scr, path)
