"""C16 — key material is erased when keys are dropped.

E1: the real zeroising Drop of R and T, and the byte-array / polynomial-vector leaves of the derived
Zeroize, for every content and every position (Kani; volatile writes executed, only the asm barrier stubbed).
E2: dataflow skeleton of the derived Drop / Zeroize bodies of PrivateKey, PublicKey, R, T from the MIR:
on every path each field of the struct is handed to a zeroising call (catches #[zeroize(skip)] and removed derives).
Thorough tier: the whole PrivateKey<1,1> / PublicKey<1,1> objects through Kani."""
import json
import os
import re
import e2
import mir
import vlib
from vlib import Harness
from props import wrapc

LEVEL = 'model_checking'
TRUSTED = ['Kani 0.68 / CBMC 6.11', 'stub: zeroize::optimization_barrier (inline asm compiler fence, no data semantics)',
           'zeroize crate: <X as AssertZeroize>::zeroize_or_on_drop(x) == x.zeroize() for X: Zeroize; the volatile-write loops themselves are executed by Kani for [i32;256], [u8;32], [u8;64], [T;2]',
           'field layout: the struct has no padding (size_of asserted in the harnesses)']


def struct_fields(src, name):
    m = re.search(r'pub(?:\(crate\))? struct ' + name + r'(?:<[^>]*>)?\s*(\{(.*?)\n\}|\((.*?)\);)', src, re.S)
    if not m:
        return None
    if m.group(2) is not None:
        body = re.sub(r'//.*', '', m.group(2))
        return [f.strip() for f in re.findall(r'(?:pub(?:\(crate\))?\s+)?(\w+)\s*:\s*[^,]+,?', body)]
    return ['0']


def skeleton(run, scr):
    funcs = mir.parse(mir.dump(scr, checked=True))
    src = open(os.path.join(scr.repo, 'src', 'types.rs')).read()
    problems = []
    for ty, pat in (('PrivateKey', 'types::PrivateKey<K, L>'), ('PublicKey', 'types::PublicKey<K, L>'), ('R', 'R'), ('T', 'T')):
        fields = struct_fields(src, ty)
        if not fields:
            run.inconclusive.append(f'C16 skeleton: struct {ty} not found in src/types.rs')
            continue
        drops = [n for n, f in funcs.items() if n.endswith('::drop') and n.startswith('types::<impl') and f.params and f.params[0][1] == '&mut ' + pat]
        if len(drops) != 1:
            problems.append((ty, f'no (unique) Drop impl in the MIR dump for {ty}: {drops}'))
            run.add_query({'name': f'{ty}: has a Drop impl', 'engine': 'E2 skeleton', 'verdict': 'sat'})
            continue
        # follow Drop -> (fields | self.zeroize()) -> fields
        erased = set()
        work = [drops[0]]
        seen = set()
        while work:
            fn = work.pop()
            if fn in seen:
                continue
            seen.add(fn)
            E = e2.Exec(funcs, mode='bv', inline=set())
            E.cut_loops = True          # a hand-written zeroize() may loop over the vectors; the derived one is loop-free
            try:
                res, obl = E.run(fn, [e2.Ref('self', '&mut ' + pat)])
            except (e2.Refuse, RecursionError, Exception) as ex:  # noqa: BLE001 - the skeleton is one of three deciders; the others still run
                problems.append((ty, f'skeleton of {fn} not conclusive ({type(ex).__name__}: {str(ex)[:120]}); decided by the Kani object harnesses and the native drop test'))
                res = []; E.calls = []
                continue
            loops = [1 for pc, r in res if isinstance(r, dict) and str(r.get('@stop', '')).startswith('loop:')] + [1 for pc, stp in E.path_states if isinstance(stp, dict) and str(stp.get('@stop', '')).startswith('loop:')]
            if loops:
                problems.append((ty, f'{fn} contains loops (hand-written erasure): which elements are reached is decided by the Kani object harnesses and the native drop test at the real sizes'))
            run.functions.append('MIR ' + fn)
            if len(res) != 1:
                run.inconclusive.append(f'C16 skeleton: {fn} has {len(res)} paths')
            for callee, argv, r, where, bb in E.calls:
                if not re.search(r'(Zeroize>::zeroize|AssertZeroize>::zeroize_or_on_drop)$', callee):
                    continue
                a = argv[0]
                if isinstance(a, e2.Ref):
                    m = re.match(r'^self\.(\d+)$', str(a.t))
                    if m:
                        erased.add(int(m.group(1)))
                    elif a.t == 'self':
                        zs = [n for n, f in funcs.items() if n.endswith('::zeroize') and n.startswith('types::<impl') and f.params and f.params[0][1] == '&mut ' + pat]
                        work += zs
        missing = [fields[i] for i in range(len(fields)) if i not in erased]
        run.add_query({'name': f'{ty}: on drop every field is handed to a zeroising call (fields {fields}; erased indices {sorted(erased)})', 'engine': 'E2 dataflow skeleton of the derived Drop/Zeroize MIR (calls uninterpreted)',
                       'verdict': 'holds' if not missing else 'sat', 'missing': missing})
        if missing:
            problems.append((ty, f'fields not erased on drop: {missing}'))
    return problems


def witness_code(kind, vals):
    """Rust block that rebuilds the <1,1> key object of the failing monolithic Kani harness from its concrete-playback values
    and drops it natively (fields in the order of the harness' kani::any() calls)"""
    def arr_u8(b):
        return '[' + ', '.join(str(x) + 'u8' for x in b) + ']'
    def arr_i32(b):
        import struct
        return '[' + ', '.join(str(x) + 'i32' for x in struct.unpack('<256i', b)) + ']'
    try:
        if kind == 'pk':
            stream = b''.join(vals)      # arrays are drawn element by element: slice the concatenated stream by field sizes
            assert len(stream) >= 32 + 64 + 1024
            rho, tr, t1 = stream[0:32], stream[32:96], stream[96:1120]
            obj = f'crate::types::PublicKey::<1, 1> {{ rho: {arr_u8(rho)}, tr: {arr_u8(tr)}, t1_d2_hat_mont: [crate::types::T({arr_i32(t1)})] }}'
        else:
            stream = b''.join(vals)
            assert len(stream) >= 128 + 3 * 1024
            rho, k, tr = stream[0:32], stream[32:64], stream[64:128]
            s1, s2, t0 = stream[128:1152], stream[1152:2176], stream[2176:3200]
            obj = (f'crate::types::PrivateKey::<1, 1> {{ rho: {arr_u8(rho)}, cap_k: {arr_u8(k)}, tr: {arr_u8(tr)}, s_1_hat_mont: [crate::types::T({arr_i32(s1)})], '
                   f's_2_hat_mont: [crate::types::T({arr_i32(s2)})], t_0_hat_mont: [crate::types::T({arr_i32(t0)})] }}')
    except Exception:  # noqa: BLE001 - playback layout not as expected: no witness block
        return ''
    return f'{{ let n = survivors({obj}); if n != 0 {{ std::println!("ml_dsa_ solver witness ({kind}<1,1> from Kani concrete playback): {{}} byte(s) survive drop", n); bad += 1; }} }}'


def native(scr, witness=''):
    src = open(os.path.join(vlib.VERIF, 'replay', 'c16_drop.rs')).read().replace('// @WITNESS@', witness)
    res = {}; msgs = []
    for rel in (False, True):
        oc, out = vlib.native_test(scr, src, 'c16_drop_all', release=rel)
        res['release' if rel else 'dev'] = oc
        msgs += [l.strip() for l in out.splitlines() if l.startswith('ml_dsa_') or 'VERIF-PROPERTY' in l][:6]
        if oc == 'error':
            msgs.append(out[-600:])
    return res, msgs


def run(run, scr, tier, seed, only=None):
    run.assumptions += TRUSTED + ['quick tier: key structs are covered compositionally (skeleton: every field reaches a zeroising call; leaves: each field type is erased for every content); the monolithic PrivateKey<1,1>/PublicKey<1,1> harnesses run in the thorough tier',
                                  'real (K,L) differ from <1,1> only in array lengths of the same generic code']
    names = ['c16_drop_r', 'c16_drop_t', 'c16_zeroize_bytes', 'c16_zeroize_vec_t', 'c16_drop_pk_11']   # pk_11 measured 156 s
    hs = [Harness('verif_kani::c16::' + n, 'C16', timeout=900, bounds='every content of the object; read-back index symbolic') for n in names]
    if tier == 'thorough':
        hs += [Harness('verif_kani::c16::c16_drop_sk_11', 'C16', timeout=3600, mem_gb=16, bounds='PrivateKey<1,1>, every byte symbolic, typed read-back at symbolic indices (measured 1102 s)')]
    if only:
        hs = [h for h in hs if any(o in h.name for o in only)]
    problems = []
    try:
        problems = skeleton(run, scr)
    except e2.Refuse as e:
        run.inconclusive.append('E2 refused: ' + str(e))
    trait_missing = None
    try:
        results = vlib.run_kani(scr, hs, jobs=6)
    except vlib.BuildError as e:
        msg = str(e)
        m = re.search(r'the trait bound `([^`]*): (?:zeroize::)?ZeroizeOnDrop` is not satisfied', msg)
        if not m:
            raise
        trait_missing = m.group(1)
        results = []
        run.add_query({'name': 'trait-bound witness: key and polynomial types implement ZeroizeOnDrop', 'engine': 'rustc type check of the harness module (static guard)', 'verdict': 'sat', 'detail': trait_missing})
        problems.append((trait_missing, 'does not implement ZeroizeOnDrop'))
    else:
        run.add_query({'name': 'trait-bound witness: PrivateKey, PublicKey, R, T implement ZeroizeOnDrop', 'engine': 'rustc type check of the harness module (static guard, not a solver verdict)', 'verdict': 'holds', 'trivial': True}, core=False)
    for r in results:
        if r.status == 'failed':
            r.detail = 'failed: ' + '; '.join(d for _, d, _ in r.failed)[:300]
            problems.append((r.h.name, r.detail))
    run.add_kani_results(results)
    if problems:
        witness = ''
        for r in results:
            if r.status == 'failed' and r.h.name.endswith(('c16_drop_pk_11', 'c16_drop_sk_11')):
                vals, _ = vlib.kani_playback_values(scr, r.h)
                if vals:
                    witness += witness_code('pk' if r.h.name.endswith('pk_11') else 'sk', vals)
        res, msgs = native(scr, witness)
        path = vlib.save_replay('C16', 'drop', {'property': 'C16', 'kind': 'drop', 'problems': [list(p) for p in problems], 'native': res, 'native_msgs': msgs, 'witness': witness})
        if 'fail' in res.values():
            run.violation('drop-erasure', f'key object not fully erased on drop: {problems[:3]} ; native: {msgs[:4]} {res}', path)
        else:
            run.inconclusive.append(f'C16 findings did not reproduce natively: {problems[:3]} native={res} {msgs[:2]}')
    run.samples = [{'obligation': q.get('name') or q.get('harness'), 'verdict': q.get('verdict')} for q in run.queries[:10]]
    return run.finish(
        rule='leaf harnesses decide erasure for every content and every read-back position of each field type; the skeleton obligation per struct decides that every field reaches a zeroising call on the (single) path of the derived Drop',
        checker_cmd='./check C16 (cargo kani --harness verif_kani::c16::*; E2 skeleton on the MIR dump)',
        trusted_base=TRUSTED)


def replay(run, scr, path):
    res, msgs = native(scr, json.load(open(path)).get('witness', ''))
    vlib.log(f'replay {path}: {res} {msgs[:4]}')
    if 'fail' in res.values():
        vlib.log(f'VIOLATION property=C16 replay={path}')
        return 1
    return 0 if set(res.values()) == {'pass'} else 2
