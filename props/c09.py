"""C09 — key serialisation round-trips exactly and preserves behaviour."""
import z3
import vlib
from vlib import Harness
from props import skelprops

LEVEL = 'model_checking'


def run(run, scr, tier, seed, only=None):
    run.assumptions += skelprops.TRUSTED + [
        'composition: try_from_bytes = decode; NTT; to_mont (skeleton expand_*), into_bytes = mont_reduce; invNTT; re-centre / >> d; encode (skeleton into_bytes); '
        'mont_reduce(to_mont(x)) == x (mod q) (lemmas unmont + to_mont of C18), invNTT(NTT(x)) == x mod q with canonical output (C18 butterfly lemmas + basis premise), re-centring / >> d exact (closure lemmas here), codecs bijective on accepted strings (C08/C10)',
        'behaviour preservation: the round-tripped struct is field-wise congruent to the original and every consumer reduces mod q (C18 chain)']
    e1 = [Harness('verif_kani::c08::' + ('c08_roundtrip_eta2' if seed % 2 == 0 else 'c08_roundtrip_eta4'), 'C09', timeout=2400, bounds='BitPack/BitUnpack (eta, eta): two adjacent symbolic in-range coefficients')]
    if tier == 'thorough':      # measured 550 s on its own: kept out of the per-change tier
        e1.append(Harness('verif_kani::c08::c08_roundtrip_t0', 'C09', timeout=2400, bounds='BitPack/BitUnpack (2^12 - 1, 2^12): two adjacent symbolic in-range coefficients at a symbolic position, zeros elsewhere'))
    skelprops.run_prop(run, scr, tier, seed, 'C09', e1=e1, diff=('serdes', 'derive'), diff_load=(3, 0), only=only)
    return run.finish(
        rule='skeleton obligations of expand_private / expand_public / the six SerDes::into_bytes bodies + per-coefficient closure lemmas (leave Montgomery form, re-centre, t1 = (t1*2^d mod q) >> d for every t1 in [0,1023])',
        checker_cmd='./check C09', trusted_base=skelprops.TRUSTED)


def replay(run, scr, path):
    return skelprops.replay_diff('C09', scr, path)
