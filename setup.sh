#!/bin/sh
# builds nothing persistent: every check rebuilds from /repo's working tree in a scratch directory.
# This only verifies that the offline tool chain the checks need is present and that the machinery imports.
set -e
cd "$(dirname "$0")"
export CARGO_NET_OFFLINE=true
cargo kani --version
cargo +nightly --version
python3-vt -c "import z3, sys; sys.path.insert(0,'lib'); import vlib, mir, e2, e2run, lemmas, spec_smt, skel, skelsuite, layout, samplers, hintlemmas, nttsched, ctflow, ctnative, zutil, diffnative; print('z3', z3.get_version_string())"
/usr/bin/z3 --version
# only needed to replay a C14 finding (native trace probes); their absence makes such a finding inconclusive, never a false alarm
valgrind --version || echo 'valgrind not found: C14 findings cannot be replayed natively'
mkdir -p evidence replays
(cd models/sha3 && cargo build --offline -q) && (cd models/sha2 && cargo build --offline -q)
echo setup ok
