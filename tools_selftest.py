#!/usr/bin/env python3-vt
"""Self-test of the E2 obligation sets: apply source mutations (taken from the properties' why_tests_cant texts and from
FIPS 204 pitfalls) to a scratch copy of /repo, regenerate the MIR and report which obligations stop holding.
usage: tools_selftest.py [name-filter]      (development aid; not a registered check)"""
import os, re, shutil, subprocess, sys, time
sys.path.insert(0, os.path.join(os.path.dirname(os.path.abspath(__file__)), 'lib'))
import vlib, mir, skelsuite
from e2run import E2Session

MUTS = [
 ('verify-norm-le', 'src/ml_dsa.rs', r'let left = infinity_norm\(&z\) < \(gamma1 - beta\);', 'let left = infinity_norm(&z) <= (gamma1 - beta);'),
 ('verify-no-norm', 'src/ml_dsa.rs', r'let left = infinity_norm\(&z\) < \(gamma1 - beta\);', 'let left = infinity_norm(&z) < gamma1;'),
 ('sign-reject-gt', 'src/ml_dsa.rs', r'\(z_norm >= \(gamma1 - beta\)\)', '(z_norm > (gamma1 - beta))'),
 ('sign-mu-no-len', 'src/ml_dsa.rs', r'h256_xof\(&\[tr, &\[0u8\], &\[ctx.len\(\).to_le_bytes\(\)\[0\]\], ctx, message\]\)', 'h256_xof(&[tr, &[0u8], ctx, message])'),
 ('verify-domain-swap', 'src/ml_dsa.rs', r'h256_xof\(&\[tr, &\[1u8\], &\[ctx.len\(\).to_le_bytes\(\)\[0\]\], ctx, oid, phm\]\)\n    \};\n    let mut mu = \[0u8; 64\];\n    h7', 'h256_xof(&[tr, &[0u8], &[ctx.len().to_le_bytes()[0]], ctx, oid, phm])\n    };\n    let mut mu = [0u8; 64];\n    h7'),
 ('derive-zero-tr', 'src/ml_dsa.rs', r'PublicKey \{ rho: \*rho, tr: \*tr, t1_d2_hat_mont \}\n\}', 'PublicKey { rho: *rho, tr: [0u8; 64], t1_d2_hat_mont }\n}'),
 ('expand_a-swap', 'src/hashing.rs', r'&\[&rho\[\.\.\], &\[s as u8\], &\[r as u8\]\]', '&[&rho[..], &[r as u8], &[s as u8]]'),
 ('rej-ntt-le', 'src/hashing.rs', r'while j < 256 \{\n        //\n        // 5: \(ctx, 𝑠\)', 'while j <= 255 && j != 255 {\n        //\n        // 5: (ctx, 𝑠)'),
 ('keygen-rho-order', 'src/ml_dsa.rs', r'let cap_a_hat: \[\[T; L\]; K\] = expand_a::<CTEST, K, L>\(&rho\);\n        let s_1_hat', 'let cap_a_hat: [[T; L]; K] = expand_a::<CTEST, K, L>(&cap_k);\n        let s_1_hat'),
 ('sk-decode-s2-range', 'src/encodings.rs', r's_2\[i\] = bit_unpack\(&sk\[start \+ i \* step\.\.start \+ \(i \+ 1\) \* step\], eta, eta\)\?;', 's_2[i] = bit_unpack(&sk[start + i * step..start + (i + 1) * step], eta + 1, eta)?;'),
 ('expand-mask-ctr', 'src/hashing.rs', r'let n = mu \+ r;', 'let n = mu + r + 1;'),
]

def main():
    flt = sys.argv[1] if len(sys.argv) > 1 else ''
    for name, file, pat, rep in MUTS:
        if flt and flt not in name:
            continue
        t = time.time()
        scr = vlib.Scratch('selftest-' + name)
        try:
            p = os.path.join(scr.repo, file)
            src = open(p).read()
            new, n = re.subn(pat, rep, src, count=1)
            if n != 1:
                print(f'{name}: PATTERN NOT FOUND'); continue
            open(p, 'w').write(new)
            run = vlib.Run('SELFTEST', 'quick', 'other', 0)
            sess = E2Session(run, scr, 'quick'); sess.quiet_sat = True
            try:
                funcs = mir.parse(mir.dump(scr, checked=True))
            except vlib.BuildError as e:
                print(f'{name}: does not compile ({str(e)[-200:]})'); continue
            import io, contextlib
            with contextlib.redirect_stdout(io.StringIO()):
                res = skelsuite.Suite(run, sess, funcs, scr).run_all()
            bad = [r for r in res if r['verdict'] != 'holds']
            print(f'{name}: {len(bad)} of {len(res)} obligations no longer hold ({time.time()-t:.0f}s)')
            for r in bad[:4]:
                print(f'     {r["verdict"]} {r["tags"]} {r["name"][:110]} | {r["detail"][:160]}')
        finally:
            scr.cleanup()

main()
