#!/bin/sh
# usage: tools_confirm_seed.sh <seed-dir>   (contains patch.diff and demo.rs)
# confirms in a scratch worktree of /repo HEAD: patch applies, baseline suite passes with it, demo fails with it and passes without it
D=$(cd "$1" && pwd); ID=$(basename $D); W=/tmp/wt/confirm-$ID
export CARGO_NET_OFFLINE=true
git -C /repo worktree remove --force $W >/dev/null 2>&1; git -C /repo worktree add --detach $W HEAD >/dev/null 2>&1 || { echo "worktree failed"; exit 2; }
cd $W
R="seed=$ID"
if git apply $D/patch.diff 2>/dev/null; then R="$R applies=yes"; else R="$R applies=NO"; fi
B=$(cargo test --workspace --no-fail-fast --offline 2>&1 | grep -E '^test result' | awk '{p+=$4; f+=$6} END {print p" passed "f" failed"}')
R="$R baseline_with_patch=[$B]"
cp $D/demo*.rs tests/ 2>/dev/null
DEMO=$(ls tests/demo*.rs | head -1 | xargs basename | sed 's/\.rs$//')
W1=$(cargo test --offline --test $DEMO 2>&1 | grep -E '^test result' | tail -1 | cut -c1-60)
R="$R demo_with_patch=[$W1]"
git apply -R $D/patch.diff
W2=$(cargo test --offline --test $DEMO 2>&1 | grep -E '^test result' | tail -1 | cut -c1-60)
R="$R demo_without_patch=[$W2]"
echo "$R"
cd /; git -C /repo worktree remove --force $W >/dev/null 2>&1
