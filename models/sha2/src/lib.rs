//! Oracle model of the subset of the `sha2` crate API that fips204 uses.
//! The digest value is a harness-supplied (nondeterministic) constant per hash
//! function; the absorbed length and a short prefix are recorded.
#![no_std]
#![allow(static_mut_refs)]

pub mod model {
    pub const PREFIX: usize = 16;
    pub static mut OUT256: [u8; 32] = [0u8; 32];
    pub static mut OUT512: [u8; 64] = [0u8; 64];
    pub static mut CALLS256: u32 = 0;
    pub static mut CALLS512: u32 = 0;
    pub static mut LAST_LEN: usize = 0;
    pub static mut LAST_PREFIX: [u8; PREFIX] = [0u8; PREFIX];
}

pub trait Digest: Sized {
    type Out;
    fn new() -> Self;
    fn update(&mut self, data: impl AsRef<[u8]>);
    fn finalize(self) -> Self::Out;
}
pub struct Sha256 {
    n: usize,
    p: [u8; model::PREFIX],
}
pub struct Sha512 {
    n: usize,
    p: [u8; model::PREFIX],
}
fn absorb(n: &mut usize, p: &mut [u8; model::PREFIX], d: &[u8]) {
    let mut i = 0;
    while i < d.len() {
        if *n < model::PREFIX {
            p[*n] = d[i];
        }
        *n += 1;
        i += 1;
    }
}
impl Digest for Sha256 {
    type Out = [u8; 32];
    fn new() -> Self { Sha256 { n: 0, p: [0u8; model::PREFIX] } }
    fn update(&mut self, d: impl AsRef<[u8]>) { absorb(&mut self.n, &mut self.p, d.as_ref()); }
    fn finalize(self) -> [u8; 32] {
        unsafe {
            model::CALLS256 += 1;
            model::LAST_LEN = self.n;
            model::LAST_PREFIX = self.p;
            model::OUT256
        }
    }
}
impl Digest for Sha512 {
    type Out = [u8; 64];
    fn new() -> Self { Sha512 { n: 0, p: [0u8; model::PREFIX] } }
    fn update(&mut self, d: impl AsRef<[u8]>) { absorb(&mut self.n, &mut self.p, d.as_ref()); }
    fn finalize(self) -> [u8; 64] {
        unsafe {
            model::CALLS512 += 1;
            model::LAST_LEN = self.n;
            model::LAST_PREFIX = self.p;
            model::OUT512
        }
    }
}
