//! Oracle model of the subset of the `sha3` crate API that fips204 uses.
//!
//! `update` appends to a bounded ghost transcript, `finalize_xof` files the
//! transcript under the next call id, `read` returns bytes of a tape that the
//! harness fills (typically with `kani::any()`).  Every overflow of a bound
//! sets a flag the harness must assert/assume on, so nothing is silently cut.
#![no_std]
#![allow(static_mut_refs)]

pub mod model {
    /// physical bytes of transcript kept per hash call
    pub const CAP: usize = 160;
    /// number of hash calls whose transcript / tape is distinguished
    pub const MAXCALLS: usize = 8;
    /// output bytes available per call
    pub const TAPE_LEN: usize = 1024;
    /// harness-settable logical capacity (<= CAP): bytes beyond it are counted, not stored
    pub static mut CAP_LIMIT: usize = CAP;
    pub static mut LOG: [[u8; CAP]; MAXCALLS] = [[0u8; CAP]; MAXCALLS];
    /// total absorbed length of call i (may exceed CAP_LIMIT)
    pub static mut LOG_LEN: [usize; MAXCALLS] = [0; MAXCALLS];
    /// 128 or 256
    pub static mut KIND: [u16; MAXCALLS] = [0; MAXCALLS];
    /// bytes squeezed so far from call i
    pub static mut READ: [usize; MAXCALLS] = [0; MAXCALLS];
    pub static mut NCALLS: usize = 0;
    /// more than MAXCALLS calls were made
    pub static mut CALL_OVERFLOW: bool = false;
    /// a read went past TAPE_LEN (the bytes returned there are 0)
    pub static mut TAPE_OVERRUN: bool = false;
    pub static mut TAPE: [[u8; TAPE_LEN]; MAXCALLS] = [[0u8; TAPE_LEN]; MAXCALLS];

    pub fn reset() {
        unsafe {
            NCALLS = 0;
            CALL_OVERFLOW = false;
            TAPE_OVERRUN = false;
            LOG_LEN = [0; MAXCALLS];
            READ = [0; MAXCALLS];
            KIND = [0; MAXCALLS];
        }
    }
}

pub mod digest {
    pub trait Update {
        fn update(&mut self, data: &[u8]);
    }
    pub trait XofReader {
        fn read(&mut self, buffer: &mut [u8]);
    }
    pub trait ExtendableOutput {
        type Reader: XofReader;
        fn finalize_xof(self) -> Self::Reader;
    }
}

#[derive(Clone)]
pub struct Sponge<const BITS: u16> {
    buf: [u8; model::CAP],
    len: usize,
}
impl<const BITS: u16> Default for Sponge<BITS> {
    fn default() -> Self { Sponge { buf: [0u8; model::CAP], len: 0 } }
}
pub type Shake128 = Sponge<128>;
pub type Shake256 = Sponge<256>;
pub struct Reader {
    id: usize,
    pos: usize,
}

impl<const BITS: u16> digest::Update for Sponge<BITS> {
    fn update(&mut self, data: &[u8]) {
        let lim = unsafe { model::CAP_LIMIT };
        let mut i = 0;
        while i < data.len() {
            if self.len < lim && self.len < model::CAP {
                self.buf[self.len] = data[i];
            }
            self.len += 1;
            i += 1;
        }
    }
}
impl<const BITS: u16> digest::ExtendableOutput for Sponge<BITS> {
    type Reader = Reader;
    fn finalize_xof(self) -> Reader {
        unsafe {
            let id = model::NCALLS;
            if id < model::MAXCALLS {
                model::LOG[id] = self.buf;
                model::LOG_LEN[id] = self.len;
                model::KIND[id] = BITS;
            } else {
                model::CALL_OVERFLOW = true;
            }
            model::NCALLS = id + 1;
            Reader { id, pos: 0 }
        }
    }
}
impl digest::XofReader for Reader {
    fn read(&mut self, buffer: &mut [u8]) {
        unsafe {
            let mut i = 0;
            while i < buffer.len() {
                buffer[i] = if self.id < model::MAXCALLS && self.pos < model::TAPE_LEN {
                    model::TAPE[self.id][self.pos]
                } else {
                    model::TAPE_OVERRUN = true;
                    0
                };
                self.pos += 1;
                i += 1;
            }
            if self.id < model::MAXCALLS {
                model::READ[self.id] = self.pos;
            }
        }
    }
}
