#![allow(unused_imports, missing_docs, dead_code, unused_results, unsafe_code, clippy::all, clippy::pedantic, static_mut_refs)]
use crate::types::{R, T, R0, T0};
use crate::conversion::*;
use crate::Q;
pub(crate) fn barrier_stub<T: ?Sized>(_v: &T) {}
pub(crate) fn r_zeroize_stub(_r: &mut R) {}
pub(crate) fn t_zeroize_stub(_r: &mut T) {}

// spec-literal HintBitUnpack (FIPS 204 Algorithm 21) on plain arrays
fn spec_hint_unpack<const K: usize>(omega: usize, y: &[u8]) -> Option<[[u8; 256]; K]> {
    let mut h = [[0u8; 256]; K];
    let mut index: usize = 0;
    let mut i = 0;
    while i < K {
        let yi = y[omega + i] as usize;
        if yi < index || yi > omega { return None; }
        let first = index;
        while index < yi {
            if index > first {
                if y[index - 1] >= y[index] { return None; }
            }
            h[i][y[index] as usize] = 1;
            index += 1;
        }
        i += 1;
    }
    let mut j = index;
    while j < omega {
        if y[j] != 0 { return None; }
        j += 1;
    }
    Some(h)
}

// reduced parameters: K=2, omega=6 (generic code; loops over 256 stay)
#[kani::proof]
#[kani::unwind(258)]
#[kani::stub(zeroize::optimization_barrier, barrier_stub)]
#[kani::stub(<crate::types::R as core::ops::Drop>::drop, r_zeroize_stub)]
fn c_hint_unpack_small() {
    const K: usize = 2; const OMEGA: usize = 6;
    let y: [u8; OMEGA + K] = kani::any();
    let r = hint_bit_unpack::<K>(OMEGA as i32, &y);
    let s = spec_hint_unpack::<K>(OMEGA, &y);
    match (r, s) {
        (Ok(h), Some(hs)) => {
            // same hint: compare at one symbolic position per poly (all positions symbolic index)
            let p: usize = kani::any(); kani::assume(p < 256);
            assert!(h[0].0[p] == hs[0][p] as i32);
            assert!(h[1].0[p] == hs[1][p] as i32);
            // canonical: re-encode gives identical bytes
            let mut y2 = [0xAAu8; OMEGA + K];
            hint_bit_pack::<false, K>(OMEGA as i32, &h, &mut y2);
            assert!(y2 == y);
            core::mem::forget(h);
        }
        (Err(_), None) => {}
        _ => { assert!(false, "accept/reject mismatch"); }
    }
}

// full ML-DSA-44 parameters
#[kani::proof]
#[kani::unwind(258)]
#[kani::stub(zeroize::optimization_barrier, barrier_stub)]
fn c_hint_unpack_44() {
    const K: usize = 4; const OMEGA: usize = 80;
    let y: [u8; OMEGA + K] = kani::any();
    let r = hint_bit_unpack::<K>(OMEGA as i32, &y);
    let s = spec_hint_unpack::<K>(OMEGA, &y);
    match (r, s) {
        (Ok(h), Some(hs)) => {
            let p: usize = kani::any(); kani::assume(p < 256);
            let k: usize = kani::any(); kani::assume(k < K);
            assert!(h[k].0[p] == hs[k][p] as i32);
            core::mem::forget(h);
        }
        (Err(_), None) => {}
        _ => { assert!(false, "accept/reject mismatch"); }
    }
}

// bit_unpack eta=2 : every 96-byte string
#[kani::proof]
#[kani::unwind(258)]
#[kani::stub(zeroize::optimization_barrier, barrier_stub)]
fn c_bit_unpack_eta2() {
    let v: [u8; 96] = kani::any();
    let r = bit_unpack(&v, 2, 2);
    // spec: coefficient i = 2 - bits[3i..3i+3]
    let i: usize = kani::any(); kani::assume(i < 256);
    let bitpos = 3 * i;
    let w16 = (v[bitpos / 8] as u32) | ((if bitpos / 8 + 1 < 96 { v[bitpos / 8 + 1] } else { 0 } as u32) << 8);
    let field = ((w16 >> (bitpos % 8)) & 7) as i32;
    match r {
        Ok(w) => {
            assert!(w.0[i] == 2 - field);
            assert!(field <= 4); // C10: accepted => in range  (expected to FAIL on pinned tree)
            core::mem::forget(w);
        }
        Err(_) => {}
    }
}

#[kani::proof]
#[kani::unwind(258)]
#[kani::stub(zeroize::optimization_barrier, barrier_stub)]
fn c_bit_unpack_concrete() {
    let v = [0x5au8; 96];
    let r = bit_unpack(&v, 2, 2);
    if let Ok(w) = r { assert!(w.0[0] == 0); core::mem::forget(w); }
}

#[kani::proof]
#[kani::unwind(258)]
fn u_a_is_in_range() {
    let w = R([1i32; 256]);
    let ok = crate::helpers::is_in_range(&w, 2, 2);
    assert!(ok);
    core::mem::forget(w);
}
fn mk(v: i32) -> Result<R, &'static str> { let mut w = R([0i32; 256]); let mut i = 0; while i < 256 { w.0[i] = v; i += 1; } if v > 5 { return Err("x"); } Ok(w) }
#[kani::proof]
#[kani::unwind(258)]
fn u_b_result_move() {
    let r = mk(3);
    if let Ok(w) = r { assert!(w.0[7] == 3); core::mem::forget(w); }
}
#[kani::proof]
#[kani::unwind(258)]
#[kani::stub(zeroize::optimization_barrier, barrier_stub)]
fn u_c_drop_only() {
    let w = R([1i32; 256]);
    assert!(w.0[3] == 1);
}
#[kani::proof]
#[kani::unwind(258)]
fn u_d_loop_only() {
    let v = [0x5au8; 96];
    let mut w = [0i32; 256];
    let mut temp = 0i32; let mut r_index = 0; let mut bit_index = 0;
    for byte in &v {
        temp |= i32::from(*byte) << bit_index;
        bit_index += 8;
        while bit_index >= 3 {
            let tmask = temp & 7;
            w[r_index] = 2 - tmask;
            bit_index -= 3; temp >>= 3; r_index += 1;
        }
    }
    assert!(r_index == 256);
}

#[kani::proof]
#[kani::unwind(258)]
#[kani::stub(zeroize::optimization_barrier, barrier_stub)]
#[kani::stub(<crate::types::R as core::ops::Drop>::drop, r_zeroize_stub)]
fn c_hint_vs_spec_small() {
    const K: usize = 2; const OMEGA: usize = 6;
    let y: [u8; OMEGA + K] = kani::any();
    let r = hint_bit_unpack::<K>(OMEGA as i32, &y);
    let s = spec_hint_unpack::<K>(OMEGA, &y);
    match (r, s) {
        (Ok(h), Some(hs)) => {
            let p: usize = kani::any(); kani::assume(p < 256);
            assert!(h[0].0[p] == hs[0][p] as i32);
            assert!(h[1].0[p] == hs[1][p] as i32);
            kani::cover!(h[1].0[p] == 1);
            core::mem::forget(h);
        }
        (Err(_), None) => { kani::cover!(true); }
        _ => { assert!(false, "accept/reject mismatch"); }
    }
}

// windowed form at full ML-DSA-44 size: counts symbolic, 4 index bytes symbolic, concrete increasing background
#[kani::proof]
#[kani::unwind(258)]
#[kani::stub(zeroize::optimization_barrier, barrier_stub)]
#[kani::stub(<crate::types::R as core::ops::Drop>::drop, r_zeroize_stub)]
fn c_hint_windowed_44() {
    const K: usize = 4; const OMEGA: usize = 80; const W0: usize = 10;
    let mut y = [0u8; OMEGA + K];
    let mut i = 0; while i < OMEGA { y[i] = (i * 3) as u8; i += 1; }
    y[W0] = kani::any(); y[W0 + 1] = kani::any(); y[W0 + 2] = kani::any(); y[W0 + 3] = kani::any();
    y[OMEGA] = kani::any(); y[OMEGA + 1] = kani::any(); y[OMEGA + 2] = kani::any(); y[OMEGA + 3] = kani::any();
    let r = hint_bit_unpack::<K>(OMEGA as i32, &y);
    let s = spec_hint_unpack::<K>(OMEGA, &y);
    match (r, s) {
        (Ok(h), Some(hs)) => {
            let p: usize = kani::any(); kani::assume(p < 256);
            let k: usize = kani::any(); kani::assume(k < K);
            assert!(h[k].0[p] == hs[k][p] as i32);
            kani::cover!(h[k].0[p] == 1);
            core::mem::forget(h);
        }
        (Err(_), None) => { kani::cover!(true); }
        _ => { assert!(false, "accept/reject mismatch"); }
    }
}
