#![allow(warnings, unused_imports, missing_docs, dead_code, unused_results, unsafe_code, trivial_casts, trivial_numeric_casts, unused_qualifications, unreachable_pub, single_use_lifetimes, elided_lifetimes_in_paths, clippy::all, clippy::pedantic, static_mut_refs)]
use crate::types::{PrivateKey, PublicKey, R, T, R0, T0};
use crate::traits::{Signer, Verifier, KeyGen, SerDes};
use crate::Q;
pub(crate) fn barrier_stub<X: ?Sized>(_v: &X) {}
pub(crate) fn t_drop_stub(_r: &mut T) {}
pub(crate) fn r_drop_stub(_r: &mut R) {}

// ---------- C16: every byte of a dropped private key is zero
#[kani::proof]
#[kani::unwind(258)]
#[kani::stub(zeroize::optimization_barrier, barrier_stub)]
fn d_drop_sk_11() {
    let sk: PrivateKey<1, 1> = PrivateKey {
        rho: kani::any(), cap_k: kani::any(), tr: kani::any(),
        s_1_hat_mont: [T(kani::any())], s_2_hat_mont: [T(kani::any())], t_0_hat_mont: [T(kani::any())],
    };
    let mut md = core::mem::ManuallyDrop::new(sk);
    let p = (&*md) as *const PrivateKey<1, 1> as *const u8;
    const N: usize = core::mem::size_of::<PrivateKey<1, 1>>();
    assert!(N == 32 + 32 + 64 + 3 * 1024);
    unsafe { core::mem::ManuallyDrop::drop(&mut md); }
    let o: usize = kani::any();
    kani::assume(o < N);
    let b = unsafe { *p.add(o) };
    assert!(b == 0);
}

// ---------- C07/C12: wrapper with sign_internal stubbed to a recorder
static mut SIGN_CALLS: u32 = 0;
static mut REC_CTX_LEN: usize = 0;
static mut REC_RND: [u8; 32] = [0; 32];
pub(crate) fn sign_internal_rec<const CTEST: bool, const K: usize, const L: usize, const LAMBDA_DIV4: usize, const SIG_LEN: usize, const SK_LEN: usize, const W1_LEN: usize>(
    _beta: i32, _gamma1: i32, _gamma2: i32, _omega: i32, _tau: i32, _esk: &PrivateKey<K, L>,
    _message: &[u8], ctx: &[u8], _oid: &[u8], _phm: &[u8], rnd: [u8; 32], _nist: bool,
) -> [u8; SIG_LEN] {
    unsafe { SIGN_CALLS += 1; REC_CTX_LEN = ctx.len(); REC_RND = rnd; }
    [0u8; SIG_LEN]
}
struct ModelRng { fail: bool, partial: usize, bytes: [u8; 32], calls: u32 }
impl rand_core::RngCore for ModelRng {
    fn next_u32(&mut self) -> u32 { assert!(false, "infallible RNG interface used"); 0 }
    fn next_u64(&mut self) -> u64 { assert!(false, "infallible RNG interface used"); 0 }
    fn fill_bytes(&mut self, _d: &mut [u8]) { assert!(false, "infallible RNG interface used"); }
    fn try_fill_bytes(&mut self, d: &mut [u8]) -> Result<(), rand_core::Error> {
        self.calls += 1;
        assert!(d.len() == 32);
        let n = if self.fail { self.partial } else { 32 };
        let mut i = 0; while i < n { d[i] = self.bytes[i]; i += 1; }
        if self.fail { Err(rand_core::Error::from(core::num::NonZeroU32::new(rand_core::Error::CUSTOM_START).unwrap())) } else { Ok(()) }
    }
}
impl rand_core::CryptoRng for ModelRng {}

#[kani::proof]
#[kani::unwind(34)]
#[kani::stub(zeroize::optimization_barrier, barrier_stub)]
#[kani::stub(crate::ml_dsa::sign_internal, sign_internal_rec)]
fn w_sign_wrapper_44() {
    // a key object whose content is irrelevant (signer body is a recorder)
    let sk: crate::ml_dsa_44::PrivateKey = PrivateKey {
        rho: [0; 32], cap_k: [0; 32], tr: [0; 64],
        s_1_hat_mont: [T0; 4], s_2_hat_mont: [T0; 4], t_0_hat_mont: [T0; 4],
    };
    let buf = [0u8; 1024];
    let n: usize = kani::any(); kani::assume(n <= 1024);
    let ctx = &buf[..n];
    let mut rng = ModelRng { fail: kani::any(), partial: kani::any(), bytes: kani::any(), calls: 0 };
    kani::assume(rng.partial <= 32);
    let msg = [1u8, 2, 3];
    let r = sk.try_sign_with_rng(&mut rng, &msg, ctx);
    unsafe {
        if n > 255 { assert!(r.is_err()); assert!(SIGN_CALLS == 0); }
        else if rng.fail { assert!(r.is_err()); assert!(SIGN_CALLS == 0); assert!(rng.calls == 1); }
        else { assert!(r.is_ok()); assert!(SIGN_CALLS == 1); assert!(REC_CTX_LEN == n); assert!(REC_RND == rng.bytes); assert!(rng.calls == 1); }
    }
    kani::cover!(n == 256 && r.is_err());
    kani::cover!(n == 255 && r.is_ok());
    core::mem::forget(sk);
}

#[kani::proof]
#[kani::unwind(258)]
#[kani::stub(zeroize::optimization_barrier, barrier_stub)]
fn d_drop_sk_11_concrete() {
    let sk: PrivateKey<1, 1> = PrivateKey {
        rho: [0xA5; 32], cap_k: [0xA5; 32], tr: [0xA5; 64],
        s_1_hat_mont: [T([0x5A5A_5A5A; 256])], s_2_hat_mont: [T([0x5A5A_5A5A; 256])], t_0_hat_mont: [T([0x5A5A_5A5A; 256])],
    };
    let mut md = core::mem::ManuallyDrop::new(sk);
    let p = (&*md) as *const PrivateKey<1, 1> as *const u8;
    const N: usize = core::mem::size_of::<PrivateKey<1, 1>>();
    assert!(N == 32 + 32 + 64 + 3 * 1024);
    let o: usize = kani::any();
    kani::assume(o < N);
    let before = unsafe { *p.add(o) };
    assert!(before != 0);
    unsafe { core::mem::ManuallyDrop::drop(&mut md); }
    let b = unsafe { *p.add(o) };
    assert!(b == 0);
}

#[kani::proof]
#[kani::unwind(258)]
#[kani::stub(zeroize::optimization_barrier, barrier_stub)]
fn d_drop_sk_11_typed() {
    let sk: PrivateKey<1, 1> = PrivateKey {
        rho: [0xA5; 32], cap_k: [0xA5; 32], tr: [0xA5; 64],
        s_1_hat_mont: [T([0x5A5A_5A5A; 256])], s_2_hat_mont: [T([0x5A5A_5A5A; 256])], t_0_hat_mont: [T([0x5A5A_5A5A; 256])],
    };
    let mut md = core::mem::ManuallyDrop::new(sk);
    let p_rho = &md.rho as *const [u8; 32];
    let p_k = &md.cap_k as *const [u8; 32];
    let p_tr = &md.tr as *const [u8; 64];
    let p_s1 = &md.s_1_hat_mont[0].0 as *const [i32; 256];
    let p_s2 = &md.s_2_hat_mont[0].0 as *const [i32; 256];
    let p_t0 = &md.t_0_hat_mont[0].0 as *const [i32; 256];
    assert!(core::mem::size_of::<PrivateKey<1, 1>>() == 32 + 32 + 64 + 3 * 1024);
    unsafe { core::mem::ManuallyDrop::drop(&mut md); }
    let i: usize = kani::any(); kani::assume(i < 32);
    let j: usize = kani::any(); kani::assume(j < 64);
    let n: usize = kani::any(); kani::assume(n < 256);
    unsafe {
        assert!((*p_rho)[i] == 0); assert!((*p_k)[i] == 0); assert!((*p_tr)[j] == 0);
        assert!((*p_s1)[n] == 0); assert!((*p_s2)[n] == 0); assert!((*p_t0)[n] == 0);
    }
}
