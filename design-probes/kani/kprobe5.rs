#![allow(warnings, unused_imports, missing_docs, dead_code, unused_results, unsafe_code, trivial_casts, trivial_numeric_casts, unused_qualifications, unreachable_pub, single_use_lifetimes, elided_lifetimes_in_paths, clippy::all, clippy::pedantic, static_mut_refs)]
use crate::types::{PrivateKey, PublicKey, R, T, R0, T0};
use crate::Q;
pub(crate) fn barrier_stub<X: ?Sized>(_v: &X) {}
pub(crate) fn t_drop_stub(_r: &mut T) {}
pub(crate) fn r_drop_stub(_r: &mut R) {}
const BETA: i32 = 78; const GAMMA1: i32 = 1 << 17; const GAMMA2: i32 = (Q - 1) / 88;
const P: usize = 5; // sliced position

fn sparse_r(lo: i32, hi: i32) -> R { let mut r = R0; let v: i32 = kani::any(); kani::assume(v >= lo && v <= hi); r.0[P] = v; r }
pub(crate) fn expand_a_stub<const CTEST: bool, const K: usize, const L: usize>(_rho: &[u8; 32]) -> [[T; L]; K] { core::array::from_fn(|_| core::array::from_fn(|_| T0)) }
pub(crate) fn ntt_stub<const KL: usize>(_w: &[R; KL]) -> [T; KL] { core::array::from_fn(|_| T(sparse_r(-(1 << 26), 1 << 26).0)) }
pub(crate) fn mat_vec_mul_stub<const K: usize, const L: usize>(_a: &[[T; L]; K], _u: &[T; L]) -> [T; K] { core::array::from_fn(|_| T(sparse_r(-(1 << 25), 1 << 25).0)) }
pub(crate) fn inv_ntt_stub<const KL: usize>(_w: &[T; KL]) -> [R; KL] { core::array::from_fn(|_| sparse_r(0, Q - 1)) }
pub(crate) fn sample_in_ball_stub<const CTEST: bool>(_tau: i32, _rho: &[u8]) -> R { sparse_r(-1, 1) }

#[kani::proof]
#[kani::unwind(580)]
#[kani::stub(zeroize::optimization_barrier, barrier_stub)]
#[kani::stub(<crate::types::R as core::ops::Drop>::drop, r_drop_stub)]
#[kani::stub(<crate::types::T as core::ops::Drop>::drop, t_drop_stub)]
#[kani::stub(crate::hashing::expand_a, expand_a_stub)]
#[kani::stub(crate::ntt::ntt, ntt_stub)]
#[kani::stub(crate::helpers::mat_vec_mul, mat_vec_mul_stub)]
#[kani::stub(crate::ntt::inv_ntt, inv_ntt_stub)]
#[kani::stub(crate::hashing::sample_in_ball, sample_in_ball_stub)]
fn v_verify_11() {
    unsafe { sha3::model::TAPE = kani::any(); }
    let pk: PublicKey<1, 1> = PublicKey { rho: kani::any(), tr: kani::any(), t1_d2_hat_mont: [T(sparse_r(-2 * Q, 2 * Q).0)] };
    // signature: c_tilde symbolic, z all-zero fields except bytes covering coefficient P, hint section: count bytes symbolic, indices symbolic for first 3
    let mut sig = [0u8; 689];
    let ct: [u8; 32] = kani::any(); sig[..32].copy_from_slice(&ct);
    // z fields are 18 bits: coefficient P occupies bits 90..108 -> bytes 11..13 of the z block
    sig[32 + 11] = kani::any(); sig[32 + 12] = kani::any(); sig[32 + 13] = kani::any();
    let hb = 32 + 576;
    sig[hb] = kani::any(); sig[hb + 1] = kani::any(); sig[hb + 2] = kani::any();
    sig[hb + 80] = kani::any(); // count byte
    let msg: [u8; 2] = kani::any(); let ctx: [u8; 1] = kani::any();
    let ok = crate::ml_dsa::verify_internal::<false, 1, 1, 32, 0, 689, 192>(BETA, GAMMA1, GAMMA2, 80, 39, &pk, &msg, &sig, &ctx, &[], &[], false);
    kani::cover!(ok);
    kani::cover!(!ok);
    core::mem::forget(pk);
}
