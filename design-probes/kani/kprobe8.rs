#![allow(warnings, unused_imports, missing_docs, dead_code, unused_results, unsafe_code, trivial_casts, trivial_numeric_casts, unused_qualifications, unreachable_pub, clippy::all, clippy::pedantic, static_mut_refs)]
use crate::types::{PrivateKey, PublicKey, R, T, R0, T0};
use crate::traits::SerDes;
use crate::Q;
pub(crate) fn barrier_stub<X: ?Sized>(_v: &X) {}
pub(crate) fn t_drop_stub(_r: &mut T) {}
pub(crate) fn r_drop_stub(_r: &mut R) {}

// F1 search: real ntt -> mat_vec_mul -> inv_ntt, matrix row = one symbolic value broadcast, z = c*X^0
#[kani::proof]
#[kani::unwind(258)]
#[kani::stub(zeroize::optimization_barrier, barrier_stub)]
#[kani::stub(<crate::types::R as core::ops::Drop>::drop, r_drop_stub)]
#[kani::stub(<crate::types::T as core::ops::Drop>::drop, t_drop_stub)]
fn o_overflow_search_l4() {
    const L: usize = 4;
    let a: i32 = kani::any(); kani::assume(a >= 0 && a < Q);
    let c: i32 = 1 << 17; // gamma1 of ML-DSA-44: largest in-range z coefficient
    let z: [R; L] = core::array::from_fn(|_| { let mut r = R0; r.0[0] = c; r });
    let row: [[T; L]; 1] = [core::array::from_fn(|_| T([a; 256]))];
    let z_hat = crate::ntt::ntt(&z);
    let w_hat = crate::helpers::mat_vec_mul(&row, &z_hat);
    let w = crate::ntt::inv_ntt(&w_hat);
    kani::cover!(w[0].0[0] >= 0);
    core::mem::forget(w);
}

// C09: real ML-DSA-44 public key round trip, one symbolic 10-bit t1 field at coefficient P of polynomial 0
#[kani::proof]
#[kani::unwind(322)]
#[kani::stub(zeroize::optimization_barrier, barrier_stub)]
#[kani::stub(<crate::types::R as core::ops::Drop>::drop, r_drop_stub)]
#[kani::stub(<crate::types::T as core::ops::Drop>::drop, t_drop_stub)]
fn r_pk44_roundtrip_sliced() {
    let mut b = [0xFFu8; 1312];          // background: every t1 = 1023 (t1*2^d = q-1)
    // coefficient 3 of poly 0: bits 30..39 -> bytes 35 (bits 6,7), 36 (all) of the t1 area starting at 32
    let x: u16 = kani::any(); kani::assume(x < 1024);
    let base = 32 + 3;                   // byte holding bit 30 is 32 + 3
    b[base] = (b[base] & 0x3F) | (((x & 0x3) as u8) << 6);
    b[base + 1] = (x >> 2) as u8;
    let pk = crate::ml_dsa_44::PublicKey::try_from_bytes(b).unwrap();
    let b2 = pk.into_bytes();
    let i: usize = kani::any(); kani::assume(i < 1312);
    assert!(b2[i] == b[i]);
}
