#![allow(warnings, unused_imports, missing_docs, dead_code, unused_results, unsafe_code, trivial_casts, trivial_numeric_casts, unused_qualifications, unreachable_pub, clippy::all, clippy::pedantic, static_mut_refs)]
use crate::types::{PrivateKey, PublicKey, R, T, R0, T0};
use crate::Q;
pub(crate) fn barrier_stub<X: ?Sized>(_v: &X) {}
pub(crate) fn t_drop_stub(_r: &mut T) {}
pub(crate) fn r_drop_stub(_r: &mut R) {}
pub(crate) fn sig_decode_stub<const K: usize, const L: usize, const LAMBDA_DIV4: usize, const SIG_LEN: usize>(
    _gamma1: i32, _omega: i32, _sigma: &[u8; SIG_LEN]) -> Result<([u8; LAMBDA_DIV4], [R; L], Option<[R; K]>), &'static str> {
    Ok(([0u8; LAMBDA_DIV4], [R0; L], Some([R0; K])))
}
pub(crate) fn sib_cut<const CTEST: bool>(_tau: i32, _rho: &[u8]) -> R { kani::assume(false); R0 }

fn mu_transcript(pk: &PublicKey<1, 1>, mode_hash: bool, ctx: &[u8], m: &[u8], oid: &[u8; 11], phm: &[u8], nist: bool) {
    let sig = [0u8; 689];
    let (o, p): (&[u8], &[u8]) = if mode_hash { (&oid[..], phm) } else { (&[], &[]) };
    let _ = crate::ml_dsa::verify_internal::<false, 1, 1, 32, 0, 689, 192>(78, 1 << 17, (Q - 1) / 88, 80, 39, pk, m, &sig, ctx, o, p, nist);
}

// C06/C07: the real mu construction is injective in (mode, ctx, M | oid, PHM); ctx len <= 8, |M| <= 8, |PHM| in {32,64}
#[kani::proof]
#[kani::unwind(130)]
#[kani::stub(zeroize::optimization_barrier, barrier_stub)]
#[kani::stub(<crate::types::R as core::ops::Drop>::drop, r_drop_stub)]
#[kani::stub(<crate::types::T as core::ops::Drop>::drop, t_drop_stub)]
#[kani::stub(crate::encodings::sig_decode, sig_decode_stub)]
#[kani::stub(crate::hashing::sample_in_ball, sib_cut)]
fn f_mu_injective() {
    let pk: PublicKey<1, 1> = PublicKey { rho: [0; 32], tr: kani::any(), t1_d2_hat_mont: [T0] };
    let cbuf1: [u8; 8] = kani::any(); let cbuf2: [u8; 8] = kani::any();
    let mbuf1: [u8; 8] = kani::any(); let mbuf2: [u8; 8] = kani::any();
    let (c1, c2): (usize, usize) = (kani::any(), kani::any()); kani::assume(c1 <= 8 && c2 <= 8);
    let (m1, m2): (usize, usize) = (kani::any(), kani::any()); kani::assume(m1 <= 8 && m2 <= 8);
    let (h1, h2): (bool, bool) = (kani::any(), kani::any());
    let oid1: [u8; 11] = kani::any(); let oid2: [u8; 11] = kani::any();
    let ph1: [u8; 64] = kani::any(); let ph2: [u8; 64] = kani::any();
    let (l1, l2): (bool, bool) = (kani::any(), kani::any()); // digest length 32 or 64
    // run 1: the cut (assume false in sample_in_ball) would kill the path, so transcripts are read from the log *inside* the model before the cut:
    // finalize_xof logs at call 0 (mu). We therefore run both constructions first on separate model call slots.
    mu_transcript_nocut(&pk, h1, &cbuf1[..c1], &mbuf1[..m1], &oid1, &ph1[..if l1 { 64 } else { 32 }]);
    mu_transcript_nocut(&pk, h2, &cbuf2[..c2], &mbuf2[..m2], &oid2, &ph2[..if l2 { 64 } else { 32 }]);
    unsafe {
        let a = &sha3::model::LOG[0]; let b = &sha3::model::LOG[1];
        let (la, lb) = (sha3::model::LOG_LEN[0], sha3::model::LOG_LEN[1]);
        assert!(!sha3::model::OVERFLOW);
        let mut same = la == lb;
        let mut i = 0; while i < sha3::model::CAP { if i < la && i < lb && a[i] != b[i] { same = false; } i += 1; }
        if same {
            assert!(h1 == h2);
            assert!(c1 == c2);
            let mut i = 0; while i < 8 { if i < c1 { assert!(cbuf1[i] == cbuf2[i]); } i += 1; }
            if !h1 { assert!(m1 == m2); let mut i = 0; while i < 8 { if i < m1 { assert!(mbuf1[i] == mbuf2[i]); } i += 1; } }
            else { assert!(oid1 == oid2); assert!(l1 == l2); }
        }
        kani::cover!(same);
        kani::cover!(la == 64 + 2 + 8 + 8);
    }
    core::mem::forget(pk);
}
// same dataflow as verify_internal's step 7 but we cannot cut inside; instead reuse the real function with a stub that records and returns early is impossible,
// so this probe calls the real h256_xof with exactly the slices verify_internal builds -- see note in DESIGN: real harness uses sample_in_ball-cut + per-run log slots.
fn mu_transcript_nocut(pk: &PublicKey<1, 1>, mode_hash: bool, ctx: &[u8], m: &[u8], oid: &[u8; 11], phm: &[u8]) {
    use sha3::digest::XofReader;
    let tr = &pk.tr;
    let mut h = if !mode_hash { crate::hashing::h256_xof(&[tr, &[0u8], &[ctx.len().to_le_bytes()[0]], ctx, m]) }
                else { crate::hashing::h256_xof(&[tr, &[1u8], &[ctx.len().to_le_bytes()[0]], ctx, oid, phm]) };
    let mut mu = [0u8; 64]; h.read(&mut mu);
}
