#![allow(warnings, unused_imports, missing_docs, dead_code, unused_results, unsafe_code, trivial_casts, trivial_numeric_casts, unused_qualifications, unreachable_pub, clippy::all, clippy::pedantic)]
use crate::helpers::*;
use crate::high_low::*;
use crate::Q;

fn params() -> (i32, i32) {
    // (gamma2, beta) for 44 / 65 / 87
    let s: u8 = kani::any(); kani::assume(s < 3);
    match s { 0 => ((Q - 1) / 88, 78), 1 => ((Q - 1) / 32, 196), _ => ((Q - 1) / 32, 120) }
}
fn cnorm(x: i32) -> i32 { center_mod(x).abs() }

// A1: r0 check passed  =>  HighBits(w - cs2) == HighBits(w)
#[kani::proof]
fn a1_highbits_stable() {
    let (g2, beta) = params();
    let w: i32 = kani::any(); kani::assume(w >= 0 && w < Q);
    let cs2: i32 = kani::any(); kani::assume(cs2 >= 0 && cs2 < Q);
    kani::assume(cnorm(cs2) <= beta);
    let r = partial_reduce32(w - cs2);
    let r0 = low_bits(g2, r);
    if cnorm(r0) < g2 - beta {
        assert!(high_bits(g2, r) == high_bits(g2, w));
    }
    kani::cover!(cnorm(r0) < g2 - beta);
    kani::cover!(cnorm(r0) == g2 - beta - 1);
}

// A2: UseHint(MakeHint(-ct0, x+ct0), x+ct0) == HighBits(x), exact argument shapes of sign/verify
#[kani::proof]
fn a2_hint_duality() {
    let (g2, _beta) = params();
    let x: i32 = kani::any(); kani::assume(x > -Q && x < Q);
    let ct0: i32 = kani::any(); kani::assume(ct0 >= 0 && ct0 < Q);
    kani::assume(cnorm(ct0) < g2);
    let rp = partial_reduce32(x + ct0);
    let h = make_hint(g2, Q - ct0, rp);
    let wp = full_reduce32(rp);
    assert!(use_hint(g2, i32::from(h), wp) == high_bits(g2, partial_reduce32(x)));
    kani::cover!(h);
    kani::cover!(cnorm(ct0) == g2 - 1 && h);
}
// negative control: with |ct0| == gamma2 allowed the duality must be violable (shows the bound is tight)
#[kani::proof]
fn a2_negative_control() {
    let (g2, _beta) = params();
    let x: i32 = kani::any(); kani::assume(x > -Q && x < Q);
    let ct0: i32 = kani::any(); kani::assume(ct0 >= 0 && ct0 < Q);
    kani::assume(cnorm(ct0) <= g2 + 1);
    let rp = partial_reduce32(x + ct0);
    let h = make_hint(g2, Q - ct0, rp);
    let wp = full_reduce32(rp);
    kani::cover!(use_hint(g2, i32::from(h), wp) != high_bits(g2, partial_reduce32(x)));
}
