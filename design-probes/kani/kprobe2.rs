#![allow(unused_imports, missing_docs, dead_code, unused_results, unsafe_code, clippy::all, clippy::pedantic, static_mut_refs)]
use crate::types::{PrivateKey, PublicKey, R, T, R0, T0};
use crate::Q;

static mut MASK_CALLS: u32 = 0;
static mut INV_CALLS: u32 = 0;
const BETA: i32 = 78;
const GAMMA1: i32 = 1 << 17;
const GAMMA2: i32 = (Q - 1) / 88;

fn any_r(lo: i32, hi: i32) -> R {
    let a: [i32; 256] = kani::any();
    let mut i = 0;
    while i < 256 { kani::assume(a[i] >= lo && a[i] <= hi); i += 1; }
    R(a)
}
fn any_t(lo: i32, hi: i32) -> T { T(any_r(lo, hi).0) }

pub(crate) fn expand_a_stub<const CTEST: bool, const K: usize, const L: usize>(_rho: &[u8; 32]) -> [[T; L]; K] {
    core::array::from_fn(|_| core::array::from_fn(|_| T0))
}
pub(crate) fn expand_mask_stub<const L: usize>(gamma1: i32, _rho: &[u8; 64], _mu: u16) -> [R; L] {
    unsafe { if MASK_CALLS > 0 { kani::assume(false); } MASK_CALLS += 1; }
    core::array::from_fn(|_| any_r(-gamma1 + 1, gamma1))
}
pub(crate) fn ntt_stub<const KL: usize>(_w: &[R; KL]) -> [T; KL] {
    core::array::from_fn(|_| any_t(-(1 << 26), 1 << 26))
}
pub(crate) fn mat_vec_mul_stub<const K: usize, const L: usize>(_a: &[[T; L]; K], _u: &[T; L]) -> [T; K] {
    core::array::from_fn(|_| any_t(-(1 << 26), 1 << 26))
}
pub(crate) fn inv_ntt_stub<const KL: usize>(_w: &[T; KL]) -> [R; KL] {
    core::array::from_fn(|_| any_r(0, Q - 1))
}
pub(crate) fn sample_in_ball_stub<const CTEST: bool>(_tau: i32, _rho: &[u8]) -> R { any_r(-1, 1) }
pub(crate) fn barrier_stub<T: ?Sized>(_v: &T) {}
pub(crate) fn p1600_stub(state: &mut [u64; 25], _rc: usize) { *state = kani::any(); }

#[kani::proof]
#[kani::unwind(258)]
#[kani::stub(crate::hashing::expand_a, expand_a_stub)]
#[kani::stub(crate::hashing::expand_mask, expand_mask_stub)]
#[kani::stub(crate::ntt::ntt, ntt_stub)]
#[kani::stub(crate::helpers::mat_vec_mul, mat_vec_mul_stub)]
#[kani::stub(crate::ntt::inv_ntt, inv_ntt_stub)]
#[kani::stub(crate::hashing::sample_in_ball, sample_in_ball_stub)]
#[kani::stub(zeroize::optimization_barrier, barrier_stub)]
fn s_sign_nopanic() {
    let sk: PrivateKey<1, 1> = PrivateKey {
        rho: kani::any(), cap_k: kani::any(), tr: kani::any(),
        s_1_hat_mont: [any_t(-2 * Q, 2 * Q)], s_2_hat_mont: [any_t(-2 * Q, 2 * Q)], t_0_hat_mont: [any_t(-2 * Q, 2 * Q)],
    };
    let msg: [u8; 2] = kani::any();
    let ctx: [u8; 1] = kani::any();
    let rnd: [u8; 32] = kani::any();
    unsafe { sha3::model::TAPE = kani::any(); }
    let sig = crate::ml_dsa::sign_internal::<false, 1, 1, 32, 689, 0, 192>(
        BETA, GAMMA1, GAMMA2, 80, 39, &sk, &msg, &ctx, &[], &[], rnd, false);
    kani::cover!(sig[100] == 7);
}


#[kani::proof]
#[kani::unwind(258)]
#[kani::stub(zeroize::optimization_barrier, barrier_stub)]
fn t_anyr_only() {
    let w = any_r(0, Q - 1);
    kani::cover!(w.0[5] == 3);
}

#[kani::proof]
#[kani::unwind(258)]
#[kani::stub(zeroize::optimization_barrier, barrier_stub)]
fn t_highbits_fromfn() {
    let w = any_r(0, Q - 1);
    let w_1: R = R(core::array::from_fn(|n| crate::high_low::high_bits(GAMMA2, w.0[n])));
    kani::cover!(w_1.0[5] == 3);
}

#[kani::proof]
#[kani::unwind(258)]
fn t_highbits_raw() {
    let w: [i32; 256] = kani::any();
    let mut o = [0i32; 256];
    let mut i = 0;
    while i < 256 { kani::assume(w[i] >= 0 && w[i] < Q); o[i] = crate::high_low::high_bits(GAMMA2, w[i]); i += 1; }
    kani::cover!(o[5] == 3);
}
