#![allow(missing_docs, dead_code, unused_results, clippy::all, clippy::pedantic)]
use crate::helpers::*;
use crate::high_low::*;
use crate::Q;

#[kani::proof]
fn p_mont_reduce() {
    let a: i64 = kani::any();
    kani::assume(a >= -17_996_808_479_301_632 && a <= 17_996_808_470_921_215);
    let r = mont_reduce(a);
    // witness for divisibility: t
    let t = ((a as i32).wrapping_mul(58_728_449)) as i64;
    assert!(a - t * (Q as i64) == (r as i64) << 32);
    assert!(r > -Q && r < Q);
}

#[kani::proof]
fn p_partial_reduce32() {
    let a: i32 = kani::any();
    kani::assume(a > -2_143_289_344 && a < 2_143_289_344);
    let r = partial_reduce32(a);
    assert!((a as i64 - r as i64) % (Q as i64) == 0);
    assert!(r > -Q && r < Q);
}

#[kani::proof]
fn p_decompose_spec() {
    let g2sel: bool = kani::any();
    let gamma2 = if g2sel { (Q - 1) / 88 } else { (Q - 1) / 32 };
    let r: i32 = kani::any();
    kani::assume(r >= 0 && r < Q);
    let (r1, r0) = decompose(gamma2, r);
    // spec
    let rp = r % Q;
    let mut s0 = rp % (2 * gamma2);
    if s0 > gamma2 { s0 -= 2 * gamma2; }
    let (s1, s0) = if rp - s0 == Q - 1 { (0, s0 - 1) } else { ((rp - s0) / (2 * gamma2), s0) };
    assert!(r1 == s1);
    assert!(r0 == s0);
}

#[kani::proof]
fn m1_low_zero() {
    let a: i64 = kani::any();
    kani::assume(a >= -17_996_808_479_301_632 && a <= 17_996_808_470_921_215);
    let t = ((a as i32).wrapping_mul(58_728_449)) as i64;
    assert!((a.wrapping_sub(t.wrapping_mul(Q as i64)) & 0xFFFF_FFFF) == 0);
}
#[kani::proof]
fn m2_call_only() {
    let a: i64 = kani::any();
    kani::assume(a >= -17_996_808_479_301_632 && a <= 17_996_808_470_921_215);
    let _r = mont_reduce(a);
}
#[kani::proof]
fn m3_split() {
    let hi: i32 = kani::any();
    let lo: u32 = kani::any();
    let a: i64 = ((hi as i64) << 32) | (lo as i64);
    kani::assume(a >= -17_996_808_479_301_632 && a <= 17_996_808_470_921_215);
    let r = mont_reduce(a);
    let t = ((lo as i32).wrapping_mul(58_728_449)) as i64;
    assert!(a.wrapping_sub(t.wrapping_mul(Q as i64)) == (r as i64) << 32);
}
