import z3
from mir2smt import *
funcs=parse_mir(open('/tmp/probe/mir.txt').read())
E=Exec(funcs)
beta,g1,g2,zn,rn=[z3.BitVec(n,32) for n in ('beta','gamma1','gamma2','z_norm','r0_norm')]
init={'_1':Val(beta,'i32'),'_2':Val(g1,'i32'),'_3':Val(g2,'i32'),'_126':Val(zn,'i32'),'_128':Val(rn,'i32')}
res,obl=E.run('sign_internal',[],start='bb42',stop=('bb49','bb54'),init=init)
print('paths',len(res),'panic obligations',len(obl))
ctest=z3.BitVec('param:CTEST',64)
rej=z3.Or(*[pc for pc,st in res if st['@stop']=='bb49'])
acc=z3.Or(*[pc for pc,st in res if st['@stop']=='bb54'])
noov=z3.And(z3.BVSubNoOverflow(g1,beta), z3.BVSubNoUnderflow(g1,beta,True), z3.BVSubNoOverflow(g2,beta), z3.BVSubNoUnderflow(g2,beta,True))
spec_rej=z3.Or(zn >= g1-beta, rn >= g2-beta)
check('CTEST=false: reject-path condition == FIPS step 23 predicate', z3.And(noov, ctest==0, rej != spec_rej))
check('CTEST=false: pass-path condition == negation', z3.And(noov, ctest==0, acc != z3.Not(spec_rej)))
check('CTEST=true: never rejects', z3.And(ctest!=0, rej))
