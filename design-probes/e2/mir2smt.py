#!/usr/bin/env python3
"""Prototype: symbolic execution of loop-free scalar MIR bodies into z3 terms."""
import re, sys, time
import z3

INT = {'i8':(8,True),'i16':(16,True),'i32':(32,True),'i64':(64,True),'i128':(128,True),'isize':(64,True),
       'u8':(8,False),'u16':(16,False),'u32':(32,False),'u64':(64,False),'u128':(128,False),'usize':(64,False)}

class Val:
    def __init__(s, t, ty): s.t=t; s.ty=ty      # t: z3 term / tuple of Val ; ty: type string
    def __repr__(s): return f"Val({s.t},{s.ty})"

def parse_mir(text):
    funcs={}
    # split on top-level "fn " at column 0; skip CTFE duplicates
    parts=re.split(r'(?m)^(?=fn |// MIR FOR CTFE|const |static )', text)
    skip=False
    for p in parts:
        if p.startswith('// MIR FOR CTFE'): skip=True; continue
        if not p.startswith('fn '):
            skip=False; continue
        if skip: skip=False; continue
        m=re.match(r'fn ([^\(]+)\((.*?)\) -> (.+?) \{\n', p, re.S)
        if not m: continue
        name=m.group(1).strip(); params=[]
        for a in split_top(m.group(2)):
            a=a.strip()
            if not a: continue
            l,t=a.split(':',1); params.append((l.strip(),t.strip()))
        f={'name':name,'params':params,'ret':m.group(3).strip(),'locals':{}, 'blocks':{}, 'debug':{}}
        for lm in re.finditer(r'let (?:mut )?(_\d+): ([^;]+);', p): f['locals'][lm.group(1)]=lm.group(2).strip()
        for l,t in params: f['locals'][l]=t
        f['locals']['_0']=f['ret']
        for dm in re.finditer(r'debug (\w+) => ([^;]+);', p): f['debug'][dm.group(2).strip()]=dm.group(1)
        for bm in re.finditer(r'(?m)^    (bb\d+)(?: \(cleanup\))?: \{\n(.*?)^    \}', p, re.S):
            lines=[x.strip() for x in bm.group(2).split('\n') if x.strip()]
            f['blocks'][bm.group(1)]=lines
        if name not in funcs: funcs[name]=f
    return funcs

def split_top(s):
    out=[];d=0;cur=''
    for ch in s:
        if ch in '([{<': d+=1
        if ch in ')]}>': d-=1
        if ch==',' and d==0: out.append(cur);cur=''
        else: cur+=ch
    if cur.strip(): out.append(cur)
    return out

class Exec:
    def __init__(s, funcs): s.funcs=funcs; s.fresh=0; s.inputs={}
    def bv(s, ty):
        return INT[ty]
    def mkconst(s, txt):
        m=re.match(r'const (-?\d+)_(\w+)$', txt)
        if m:
            w,_=INT[m.group(2)]; return Val(z3.BitVecVal(int(m.group(1)),w), m.group(2))
        if re.match(r'const [A-Z_0-9]+$', txt): return Val(z3.BitVec('param:'+txt[6:],64),'usize')
        if txt=='const true': return Val(z3.BoolVal(True),'bool')
        if txt=='const false': return Val(z3.BoolVal(False),'bool')
        raise NotImplementedError('const '+txt)
    def operand(s, st, txt):
        txt=txt.strip()
        if txt.startswith('const '): return s.mkconst(txt)
        txt=re.sub(r'^(copy|move) ','',txt)
        return s.place_read(st, txt)
    def place_read(s, st, p):
        p=p.strip()
        m=re.match(r'^\((_\d+)\.(\d+): [^)]+\)$', p)
        if m: return st[m.group(1)].t[int(m.group(2))]
        if re.match(r'^_\d+$', p):
            if p not in st: raise KeyError('uninit '+p)
            return st[p]
        m=re.match(r'^\(\(\*_\d+\)\.0: \[i32; 256\]\)\[(_\d+)\]$', p)
        if m and 'MEM' in st:
            return Val(z3.Select(st['MEM'], st[m.group(1)].t), 'i32')
        m=re.match(r'^\(\((_\d+) as Some\)\.0: [^)]+\)$', p)
        if m: return st[m.group(1)+'.some']
        # anything else: a memory read through captures -> named input keyed by text after alias resolution
        key=s.resolve(st, p)
        if key not in s.inputs:
            ty=s.cur_hint or 'i32'
            w,_=INT[ty]; s.inputs[key]=Val(z3.BitVec('in:'+key, w), ty)
        return s.inputs[key]
    def resolve(s, st, p):
        # replace reference locals by the place they alias (st['&_N'] = text) and index locals by their value name
        def rep(m):
            n=m.group(0)
            if ('&'+n) in st: return '('+st['&'+n]+')'
            return n
        q=re.sub(r'_\d+', rep, p)
        for k,v in s.curf['debug'].items(): q=q.replace(k, v)
        return q
    def binop(s, op, a, b):
        if a.ty=='bool':
            f={'BitAnd':z3.And,'BitOr':z3.Or,'BitXor':z3.Xor,'Eq':lambda x,y:x==y,'Ne':lambda x,y:x!=y}[op]
            return Val(f(a.t,b.t),'bool')
        w,sg=INT[a.ty]
        x,y=a.t,b.t
        if op in ('Shl','Shr','ShlUnchecked','ShrUnchecked'):
            wy=y.size()
            y = z3.Extract(w-1,0,y) if wy>w else (z3.ZeroExt(w-wy,y) if wy<w else y)
            if op.startswith('Shl'): return Val(x<<y,a.ty)
            return Val((x>>y) if sg else z3.LShR(x,y), a.ty)
        if op in ('Add','Sub','Mul','AddUnchecked','SubUnchecked','MulUnchecked'):
            r={'A':x+y,'S':x-y,'M':x*y}[op[0]]; return Val(r,a.ty)
        if op in ('AddWithOverflow','SubWithOverflow','MulWithOverflow'):
            if op[0]=='A': r=x+y; ov=z3.Not(z3.And(z3.BVAddNoOverflow(x,y,sg), z3.BVAddNoUnderflow(x,y) if sg else z3.BoolVal(True)))
            elif op[0]=='S': r=x-y; ov=z3.Not(z3.And(z3.BVSubNoOverflow(x,y) if sg else z3.BoolVal(True), z3.BVSubNoUnderflow(x,y,sg)))
            else: r=x*y; ov=z3.Not(z3.And(z3.BVMulNoOverflow(x,y,sg), z3.BVMulNoUnderflow(x,y) if sg else z3.BoolVal(True)))
            return Val((Val(r,a.ty),Val(ov,'bool')),'tuple')
        if op=='BitAnd': return Val(x&y,a.ty)
        if op=='BitOr': return Val(x|y,a.ty)
        if op=='BitXor': return Val(x^y,a.ty)
        cmp={'Lt':(lambda:x<y) if sg else (lambda:z3.ULT(x,y)),'Le':(lambda:x<=y) if sg else (lambda:z3.ULE(x,y)),
             'Gt':(lambda:x>y) if sg else (lambda:z3.UGT(x,y)),'Ge':(lambda:x>=y) if sg else (lambda:z3.UGE(x,y)),
             'Eq':lambda:x==y,'Ne':lambda:x!=y}
        if op in cmp: return Val(cmp[op](),'bool')
        raise NotImplementedError(op)
    def cast(s, v, ty):
        w2,_=INT[ty]; w1,sg=INT[v.ty] if v.ty!='bool' else (1,False)
        t=v.t
        if v.ty=='bool': t=z3.If(t,z3.BitVecVal(1,w2),z3.BitVecVal(0,w2)); return Val(t,ty)
        if w2<w1: t=z3.Extract(w2-1,0,t)
        elif w2>w1: t=(z3.SignExt if sg else z3.ZeroExt)(w2-w1,t)
        return Val(t,ty)
    def rvalue(s, st, rv, dst_ty):
        rv=rv.strip()
        m=re.match(r'^(\w+)\((.*)\)$', rv)
        if m and m.group(1) in ('Add','Sub','Mul','BitAnd','BitOr','BitXor','Shl','Shr','Lt','Le','Gt','Ge','Eq','Ne',
                               'AddWithOverflow','SubWithOverflow','MulWithOverflow','AddUnchecked','SubUnchecked','MulUnchecked','ShlUnchecked','ShrUnchecked'):
            a,b=split_top(m.group(2)); return s.binop(m.group(1), s.operand(st,a), s.operand(st,b))
        if m and m.group(1)=='Neg': v=s.operand(st,m.group(2)); return Val(-v.t,v.ty)
        if m and m.group(1)=='Not':
            v=s.operand(st,m.group(2)); return Val(z3.Not(v.t),'bool') if v.ty=='bool' else Val(~v.t,v.ty)
        m=re.match(r'^(.*) as (\w+) \(IntToInt\)$', rv)
        if m: return s.cast(s.operand(st,m.group(1)), m.group(2))
        if rv.startswith('(') and not re.match(r'^\(_\d+\.\d+:', rv):
            parts=split_top(rv[1:-1]); return Val(tuple(s.operand(st,p) for p in parts),'tuple')
        m=re.match(r'^(?:no_retag )?(?:copy|move) (\(\(\*_\d+\)\.\d+: &[^)]*\))$', rv)   # copy of a captured reference
        if m: return Val(None,'&'+s.resolve(st,m.group(1)))
        m=re.match(r'^&(?:mut )?(.*)$', rv)
        if m: return Val(None,'&'+s.resolve(st,m.group(1)))
        s.cur_hint = dst_ty if dst_ty in INT else None
        return s.operand(st, rv)
    def run(s, fname, args, depth=0, start='bb0', stop=(), init=None):
        f=s.funcs[fname]; st=dict(init or {})
        for (l,t),a in zip(f['params'],args): st[l]=a
        results=[]; obligations=[]
        saved=getattr(s,'curf',None); 
        def go(bb, st, pc, steps=0):
            s.curf=f
            if bb in stop and steps>0: d=dict(st); d['@stop']=bb; results.append((pc, d)); return
            for line in f['blocks'][bb]:
                line=line.rstrip(';')
                if line.startswith(('StorageLive','StorageDead','nop','FakeRead','PlaceMention','Retag','AscribeUserType','Coverage')): continue
                if line=='return': results.append((pc, st.get('_0'))); return
                if line=='unreachable': return
                m=re.match(r'^goto -> (bb\d+)$', line)
                if m: return go(m.group(1), st, pc, 1)
                m=re.match(r'^switchInt\((.*)\) -> \[(.*)\]$', line)
                if m:
                    v=s.operand(st,m.group(1)); taken=[]
                    for arm in split_top(m.group(2)):
                        k,tgt=[x.strip() for x in arm.split(':')]
                        if k=='otherwise': c=z3.And(*[z3.Not(t) for t in taken]) if taken else z3.BoolVal(True)
                        else:
                            c=(v.t==z3.BoolVal(k!='0')) if v.ty=='bool' else (v.t==z3.BitVecVal(int(k),v.t.size()))
                            taken.append(c)
                        go(tgt, dict(st), z3.And(pc,c), 1)
                    return
                m=re.match(r'^assert\((!?)(.*?), "(.*)"(?:, .*)?\) -> \[success: (bb\d+), unwind[^\]]*\]$', line)
                if m:
                    c=s.operand(st,m.group(2)).t
                    if m.group(1): c=z3.Not(c)
                    obligations.append((f['name'],bb,m.group(3)[:40], z3.And(pc,z3.Not(c))))
                    return go(m.group(4), st, z3.And(pc,c), 1)
                m=re.match(r'^(_\d+) = (.+?)\((.*)\) -> \[return: (bb\d+), unwind[^\]]*\]$', line)
                if m and not m.group(2).startswith(('copy','move','const')):
                    dst,callee,argtxt,nxt=m.groups()
                    argv=[s.operand(st,a) for a in split_top(argtxt)]
                    st[dst]=s.call(callee.strip(), argv, pc, obligations, depth)
                    s.curf=f
                    return go(nxt, st, pc, 1)
                m=re.match(r'^\(\(\*_\d+\)\.0: \[i32; 256\]\)\[(_\d+)\] = (.*)$', line)
                if m and 'MEM' in st:
                    v=s.rvalue(st, m.group(2), 'i32'); st['MEM']=z3.Store(st['MEM'], st[m.group(1)].t, v.t); continue
                m=re.match(r'^(_\d+) = (.*)$', line)
                if m:
                    dst=m.group(1); v=s.rvalue(st, m.group(2), f['locals'].get(dst,''))
                    if isinstance(v.ty,str) and v.ty.startswith('&'): st['&'+dst]=v.ty[1:]
                    st[dst]=v; continue
                raise NotImplementedError(f"{fname}:{bb}: {line}")
        go(start, st, z3.BoolVal(True))
        s.curf=saved
        return results, obligations
    def call(s, callee, argv, pc, obligations, depth):
        if callee in s.funcs:
            res,obl=s.run(callee, argv, depth+1)
            for (fn,bb,msg,c) in obl: obligations.append((fn,bb,msg,z3.And(pc,c)))
            # merge results by ITE
            out=None
            for c,v in reversed(res):
                out=v if out is None else s.ite(c,v,out)
            return out
        m=re.match(r'<(\w+) as From<(\w+)>>::from$', callee)
        if m: return s.cast(argv[0], m.group(1))
        m=re.match(r'core::num::<impl (\w+)>::(\w+)$', callee)
        if m:
            ty,fn=m.groups(); w,sg=INT[ty]; a=argv[0].t
            if fn=='wrapping_mul': return Val(a*argv[1].t,ty)
            if fn=='wrapping_sub': return Val(a-argv[1].t,ty)
            if fn=='wrapping_add': return Val(a+argv[1].t,ty)
            if fn=='abs': return Val(z3.If(a<0,-a,a),ty)
        raise NotImplementedError('call '+callee)
    def ite(s,c,a,b):
        if isinstance(a.t,tuple): return Val(tuple(s.ite(c,x,y) for x,y in zip(a.t,b.t)),'tuple')
        return Val(z3.If(c,a.t,b.t),a.ty)

def check(name, formula, timeout=120):
    sv=z3.Solver(); sv.set('timeout',timeout*1000); sv.add(formula)
    t=time.time(); r=sv.check(); dt=time.time()-t
    print(f"  {name}: {r} ({dt:.2f}s)" + (f"  model={sv.model()}" if r==z3.sat else ''))
    return r

if __name__=='__main__':
    funcs=parse_mir(open(sys.argv[1]).read())
    print(len(funcs),'functions parsed')
    Q=8380417
    E=Exec(funcs)
    # ---- mont_reduce
    a=z3.BitVec('a',64)
    res,obl=E.run('mont_reduce',[Val(a,'i64')])
    pre=z3.And(a>=-17996808479301632, a<=17996808470921215)
    r=res[0][1].t
    t=z3.SignExt(32, z3.Extract(31,0,a)*z3.BitVecVal(58728449,32))
    print('mont_reduce: paths',len(res),'obligations',len(obl))
    for (fn,bb,msg,c) in obl: check(f'no-panic {fn}:{bb} {msg}', z3.And(pre,c))
    d = a - t*Q
    check('congruence: low 32 bits of a - t*q are zero', z3.And(pre, z3.Extract(31,0,d)!=0))
    check('result = (a - t*q) >> 32 exactly (cast lossless)', z3.And(pre, z3.SignExt(32,r) != (d>>32)))
    check('range', z3.And(pre, z3.Not(z3.And(r<Q, r>-Q))))
    # ---- partial_reduce32 / full_reduce32 / center_mod / decompose
    x=z3.BitVec('x',32)
    pre32=z3.And(x>-2143289344, x<2143289344)
    res,obl=E.run('center_mod',[Val(x,'i32')])
    print('center_mod: paths',len(res),'obligations',len(obl))
    for (fn,bb,msg,c) in obl: check(f'no-panic {fn}:{bb} {msg}', z3.And(pre32,c))
    r=res[0][1].t
    X=z3.SignExt(32,x); R=z3.SignExt(32,r)
    check('center_mod congruent', z3.And(pre32, z3.SRem(X-R, z3.BitVecVal(Q,64))!=0))
    check('center_mod range (-q/2, q/2]', z3.And(pre32, z3.Not(z3.And(r>-(Q//2)-1+0, r<=Q//2, r>=-(Q-1)//2))))
    g=z3.BitVec('g',32); rr=z3.BitVec('r',32)
    res,obl=E.run('decompose',[Val(g,'i32'),Val(rr,'i32')])
    print('decompose: paths',len(res),'obligations',len(obl))
    for g2 in ((Q-1)//88,(Q-1)//32):
        pre=z3.And(g==g2, rr>=0, rr<Q)
        bad=z3.Or(*[c for (_,_,_,c) in obl])
        check(f'decompose g2={g2} no-panic(all {len(obl)})', z3.And(pre,bad))
        # spec
        r0s=z3.SRem(rr, z3.BitVecVal(2*g2,32)); r0s=z3.If(r0s>g2, r0s-2*g2, r0s)
        corner = (rr-r0s)==Q-1
        s1=z3.If(corner, z3.BitVecVal(0,32), (rr-r0s)/(2*g2)); s0=z3.If(corner, r0s-1, r0s)
        out=None
        for c,v in reversed(res): out=v if out is None else E.ite(c,v,out)
        check(f'decompose g2={g2} == Alg.36', z3.And(pre, z3.Or(out.t[0].t!=s1, out.t[1].t!=s0)))
    # ---- forward butterfly: one inner-loop iteration of ntt() from an arbitrary state
    Q=8380417
    j=z3.BitVec('j',64); ln=z3.BitVec('len',64); zeta=z3.BitVec('zeta',64); MEM=z3.Array('w', z3.BitVecSort(64), z3.BitVecSort(32))
    init={'_35.placeholder':None, '_32.some':Val(j,'usize'), '_12':Val(ln,'usize'), '_19':Val(zeta,'i64'), 'MEM':MEM, '_10':Val(None,'&mut T')}
    E.inputs={}
    res,obl=E.run('ntt',[], start='bb19', stop=('bb17',), init=init)
    print('ntt butterfly: paths',len(res),'obligations',len(obl))
    a=z3.Select(MEM,j); b=z3.Select(MEM,j+ln)
    B=z3.BitVec('B',32)
    lens=z3.Or(*[ln==(1<<k) for k in range(8)])
    for B0 in (1<<19, 34_200_000):
        pre=z3.And(lens, z3.ULT(j,256), z3.ULT(j+ln,256), zeta>=0, zeta<Q, a>=-B0, a<=B0, b>=-B0, b<=B0)
        bad=z3.Or(*[c for (_,_,_,c) in obl])
        check(f'butterfly B={B0}: all {len(obl)} panic obligations', z3.And(pre,bad))
        (pc,st1),=res
        M1=st1['MEM']; na=z3.Select(M1,j); nb=z3.Select(M1,j+ln)
        # t := a' - a ; properties: a' = a + t, b' = a - t, t*2^32 == zeta*b - k*q with witness, |t| bound
        t=na-a
        step=4190209 + (B0>>9) + 1
        check(f'butterfly B={B0}: b_new == a - t', z3.And(pre, nb != a - t))
        check(f'butterfly B={B0}: |t| <= q/2 + B*q/2^32 + 1', z3.And(pre, z3.Not(z3.And(t<=step, t>=-step))))
        prod=zeta*z3.SignExt(32,b)
        wit=z3.SignExt(32, z3.Extract(31,0,prod)*z3.BitVecVal(58728449,32))
        check(f'butterfly B={B0}: t*2^32 == zeta*b - wit*q (congruence)', z3.And(pre, (z3.SignExt(32,t)<<32) != prod - wit*Q))
        # frame: no other element changes
        k=z3.BitVec('k',64)
        check(f'butterfly B={B0}: frame', z3.And(pre, k!=j, k!=j+ln, z3.Select(M1,k)!=z3.Select(MEM,k)))
    # ---- a per-coefficient closure of sign_internal
    nm='sign_internal::{closure#4}::{closure#0}'
    if nm in funcs:
        f=funcs[nm]
        n=z3.BitVec('n',64)
        E.inputs={}
        try:
            res,obl=E.run(nm,[Val(None,'&closure'),Val(n,'usize')])
            print(nm,': paths',len(res),'obligations',len(obl),'inputs',list(E.inputs))
        except Exception as e:
            print('closure failed:',repr(e))
