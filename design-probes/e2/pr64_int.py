import z3, time
Q=8380417; M=(1<<48)//Q
x=z3.Int('x')
a=x*(1<<32)
x1=a/(1<<23); a1=a-x1*Q
x2=a1/(1<<23); a2=a1-x2*Q
q=(a2*M)/(1<<48); res=a2-q*Q
pre=z3.And(x>-67058539, x<67058539)
def chk(name,f):
    s=z3.Solver(); s.set('timeout',120000); s.add(pre, f); t=time.time(); r=s.check(); print(name,r,f'{time.time()-t:.2f}s', s.model() if r==z3.sat else '')
I63=1<<63
chk('x1*Q in i64', z3.Not(z3.And(x1*Q<I63, x1*Q>=-I63)))
chk('a2*M in i64', z3.Not(z3.And(a2*M<I63, a2*M>=-I63)))
chk('|res|<2q', z3.Not(z3.And(res<2*Q, res>-2*Q)))
chk('res fits i32', z3.Not(z3.And(res<(1<<31), res>=-(1<<31))))
chk('(a-res) mod q == 0', (a-res)%Q!=0)
