import z3
from mir2smt import *
funcs=parse_mir(open('/tmp/probe/mir.txt').read())
E=Exec(funcs); Q=8380417
x=z3.BitVec('x',32)
a=z3.SignExt(32,x)<<32
res,obl=E.run('partial_reduce64',[Val(a,'i64')])
print('paths',len(res),'obligations',len(obl))
pre=z3.And(x>-67058539, x<67058539)
for (fn,bb,msg,c) in obl: check(f'no-panic {bb} {msg}', z3.And(pre,c))
r=res[0][1].t
check('|res| < 2q', z3.And(pre, z3.Not(z3.And(r<2*Q, r>-2*Q))))
R=z3.SignExt(32,r)
# congruence via witness k = (a - res)/Q computed by exact signed division, then k*Q == a - res
d=a-R
k=d/z3.BitVecVal(Q,64)
check('a - res divisible by q (k*q == a-res)', z3.And(pre, k*Q != d), timeout=300)
