import z3, subprocess, time
from mir2smt import *
funcs=parse_mir(open('/tmp/probe/mir.txt').read())
E=Exec(funcs); Q=8380417
x=z3.BitVec('x',32)
a=z3.SignExt(32,x)<<32
res,obl=E.run('partial_reduce64',[Val(a,'i64')])
pre=z3.And(x>-67058539, x<67058539)
r=res[0][1].t; R=z3.SignExt(32,r)
qs={'bb4_mul_overflow': z3.And(pre, obl[4][3]), 'range_2q': z3.And(pre, z3.Not(z3.And(r<2*Q, r>-2*Q)))}
for n,f in qs.items():
    s=z3.Solver(); s.add(f)
    open(n+'.smt2','w').write('(set-logic ALL)\n'+s.sexpr()+'\n(check-sat)\n')
    for cmd in (['cvc5','--lang','smt2','--solve-bv-as-int=sum','--tlimit=120000',n+'.smt2'],['cvc5','--lang','smt2','--solve-bv-as-int=iand','--tlimit=120000',n+'.smt2'],['z3-new','-T:120',n+'.smt2']):
        t=time.time(); out=subprocess.run(cmd,capture_output=True,text=True).stdout.strip().split('\n')[-1]; print(n,cmd[0],cmd[3] if len(cmd)>4 else '',out,f'{time.time()-t:.1f}s')
