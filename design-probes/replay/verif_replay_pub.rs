use fips204::ml_dsa_44;
use fips204::traits::{KeyGen, SerDes, Signer};

#[test]
fn f2_out_of_range_eta_field_is_accepted() {
    let (_pk, sk) = ml_dsa_44::KG::keygen_from_seed(&[7u8; 32]);
    let mut b = sk.into_bytes();
    // first s1 coefficient field: low 3 bits of byte 128; set to 5 (encodes 2-5 = -3, outside [-2,2])
    b[128] = (b[128] & !0x07) | 0x05;
    let r = ml_dsa_44::PrivateKey::try_from_bytes(b);
    assert!(r.is_err(), "C10: malformed private key accepted");
}
#[test]
fn f2b_reserialise_accepted_malformed_key() {
    let (_pk, sk) = ml_dsa_44::KG::keygen_from_seed(&[7u8; 32]);
    let mut b = sk.into_bytes();
    b[128] = (b[128] & !0x07) | 0x05;
    if let Ok(k) = ml_dsa_44::PrivateKey::try_from_bytes(b) { let b2 = k.into_bytes(); assert_eq!(b2[128] & 7, 5); }
}
#[test]
fn f3_get_public_key_on_accepted_key_with_altered_t0() {
    let (_pk, sk) = ml_dsa_44::KG::keygen_from_seed(&[7u8; 32]);
    let mut b = sk.into_bytes();
    let t0_off = 128 + 8 * 96; // rho|K|tr + (l+k) * 32*3 bytes
    b[t0_off] ^= 0x01;
    let k = ml_dsa_44::PrivateKey::try_from_bytes(b).expect("in-range key must be accepted");
    let _pk2 = k.get_public_key(); // must not panic (C13)
}
