#[cfg(test)]
mod verif_replay {
    #![allow(warnings, clippy::all, clippy::pedantic, trivial_casts, unused_qualifications)]
    use crate::types::{R, T, R0, T0};
    const Q: i64 = 8_380_417;

    // schoolbook negacyclic product mod q (big-int free: i128)
    fn school(a: &[i64; 256], b: &[i64; 256]) -> [i64; 256] {
        let mut o = [0i128; 256];
        for i in 0..256 { for j in 0..256 {
            let p = (a[i] as i128) * (b[j] as i128);
            if i + j < 256 { o[i + j] += p } else { o[i + j - 256] -= p }
        }}
        core::array::from_fn(|i| (o[i].rem_euclid(Q as i128)) as i64)
    }
    fn inv_ntt_plain(ahat: &[i32; 256]) -> [i64; 256] {
        // reference: A_hat is given in NTT domain; recover a by the crate's inv_ntt on a *reduced* copy
        let r = crate::ntt::inv_ntt(&[T(*ahat)]);
        core::array::from_fn(|i| r[0].0[i] as i64)
    }

    fn run<const L: usize>() -> [i32; 256] {
        // vector in range: z_j = 2^19 (constant polynomial, = gamma1 for 65/87; for 44 use 2^17)
        let c: i32 = 1 << 19;
        let z: [R; L] = core::array::from_fn(|_| { let mut r = R0; r.0[0] = c; r });
        // matrix row in range [0,q): every NTT-domain entry = 8266856
        let row: [[T; L]; 1] = [core::array::from_fn(|_| T([8_266_856i32; 256]))];
        let z_hat = crate::ntt::ntt(&z);
        let w_hat = crate::helpers::mat_vec_mul(&row, &z_hat);
        let w = crate::ntt::inv_ntt(&w_hat);
        w[0].0
    }
    fn expected<const L: usize>() -> [i64; 256] {
        // a(X) := invNTT(row entry) ; product = L * a(X) * 2^19 mod q
        let a = inv_ntt_plain(&[8_266_856i32; 256]);
        let mut zc = [0i64; 256]; zc[0] = 1 << 19;
        let p = school(&a, &zc);
        core::array::from_fn(|i| (p[i] * L as i64).rem_euclid(Q))
    }
    #[test] fn f1_l4() { let w = run::<4>(); let e = expected::<4>(); for i in 0..256 { assert_eq!(w[i] as i64, e[i], "coef {i}"); } }
    #[test] fn f1_l5() { let w = run::<5>(); let e = expected::<5>(); for i in 0..256 { assert_eq!(w[i] as i64, e[i], "coef {i}"); } }
    #[test] fn f1_l7() { let w = run::<7>(); let e = expected::<7>(); for i in 0..256 { assert_eq!(w[i] as i64, e[i], "coef {i}"); } }
}
