//! Oracle model of the subset of the `sha2` crate API that fips204 uses.
#![no_std]
pub trait Digest: Sized {
    type Out;
    fn new() -> Self;
    fn update(&mut self, data: impl AsRef<[u8]>);
    fn finalize(self) -> Self::Out;
}
pub struct Sha256 { n: usize }
pub struct Sha512 { n: usize }
impl Digest for Sha256 { type Out = [u8; 32]; fn new() -> Self { Sha256 { n: 0 } } fn update(&mut self, d: impl AsRef<[u8]>) { self.n += d.as_ref().len(); } fn finalize(self) -> [u8; 32] { [0u8; 32] } }
impl Digest for Sha512 { type Out = [u8; 64]; fn new() -> Self { Sha512 { n: 0 } } fn update(&mut self, d: impl AsRef<[u8]>) { self.n += d.as_ref().len(); } fn finalize(self) -> [u8; 64] { [0u8; 64] } }
