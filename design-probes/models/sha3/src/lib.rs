//! Oracle model of the subset of the `sha3` crate API that fips204 uses (with transcript log).
#![no_std]
#![allow(static_mut_refs)]

pub mod model {
    pub const CAP: usize = 128;       // bytes of transcript kept per hash call
    pub const MAXCALLS: usize = 4;
    pub const TAPE_LEN: usize = 256;  // output bytes per call
    pub static mut LOG: [[u8; CAP]; MAXCALLS] = [[0u8; CAP]; MAXCALLS];
    pub static mut LOG_LEN: [usize; MAXCALLS] = [0; MAXCALLS];
    pub static mut OVERFLOW: bool = false;
    pub static mut NCALLS: usize = 0;
    pub static mut TAPE: [[u8; TAPE_LEN]; MAXCALLS] = [[0u8; TAPE_LEN]; MAXCALLS];
}

pub mod digest {
    pub trait Update { fn update(&mut self, data: &[u8]); }
    pub trait XofReader { fn read(&mut self, buffer: &mut [u8]); }
    pub trait ExtendableOutput { type Reader: XofReader; fn finalize_xof(self) -> Self::Reader; }
}

#[derive(Clone)]
pub struct Sponge { buf: [u8; model::CAP], len: usize, over: bool }
impl Default for Sponge { fn default() -> Self { Sponge { buf: [0u8; model::CAP], len: 0, over: false } } }
pub type Shake256 = Sponge;
pub type Shake128 = Sponge;
pub struct Reader { id: usize, pos: usize }

impl digest::Update for Sponge {
    fn update(&mut self, data: &[u8]) {
        let mut i = 0;
        while i < data.len() {
            if self.len < model::CAP { self.buf[self.len] = data[i]; self.len += 1; } else { self.over = true; }
            i += 1;
        }
    }
}
impl digest::ExtendableOutput for Sponge {
    type Reader = Reader;
    fn finalize_xof(self) -> Reader {
        unsafe {
            let id = model::NCALLS;
            if id < model::MAXCALLS { model::LOG[id] = self.buf; model::LOG_LEN[id] = self.len; }
            if self.over { model::OVERFLOW = true; }
            model::NCALLS = id + 1;
            Reader { id, pos: 0 }
        }
    }
}
impl digest::XofReader for Reader {
    fn read(&mut self, buffer: &mut [u8]) {
        unsafe {
            let mut i = 0;
            while i < buffer.len() {
                buffer[i] = if self.id < model::MAXCALLS && self.pos < model::TAPE_LEN { model::TAPE[self.id][self.pos] } else { 0 };
                self.pos += 1; i += 1;
            }
        }
    }
}
