#!/bin/sh
# usage: tools_seedtest.sh <patch.diff> <tag> <check-id>...   — run checks against a patched *copy* of /repo (development aid;
# the recorded seeded results in seeded/*/meta.json come from applying the patch to /repo itself)
set -e
PATCH=$1; TAG=$2; shift 2
D=/var/tmp/seedrepo/$TAG
rm -rf $D; mkdir -p $D
rsync -a --exclude target --exclude .git ${VERIF_SEED_SRC:-/repo}/ $D/
(cd $D && git apply --unsafe-paths $PATCH 2>/dev/null || patch -p1 -s < $PATCH)
for c in "$@"; do
  VERIF_REPO=$D VERIF_EVIDENCE_DIR=/var/tmp/seedrepo/ev-$TAG VERIF_REPLAY_DIR=/var/tmp/seedrepo/rp-$TAG VERIF_SCRATCH=/var/tmp/verif-scratch-$TAG /verif/check $c > /var/tmp/seedrepo/$TAG-$c.log 2>&1 || true
  echo "== seed $TAG check $c: exit=$? $(grep -E '^(VIOLATION|OK|INCONCLUSIVE|KNOWN)' /var/tmp/seedrepo/$TAG-$c.log | head -3 | cut -c1-300)"
done
rm -rf $D /var/tmp/verif-scratch-$TAG
