#!/bin/sh
# usage: tools_benign.sh <benign/NAME.diff> <check-id>...   — behaviour-preserving refactors: every check must still exit 0
# (development aid; runs against a patched *copy* of the tree, never /repo itself)
PATCH=$(cd $(dirname $1) && pwd)/$(basename $1); TAG=$(basename $1 .diff); shift
D=/var/tmp/benignrepo/$TAG
rm -rf $D; mkdir -p $D
rsync -a --exclude target --exclude .git ${VERIF_SEED_SRC:-/repo}/ $D/
(cd $D && patch -p1 -s < $PATCH) || { echo "patch failed"; exit 2; }
for c in "$@"; do
  VERIF_REPO=$D VERIF_EVIDENCE_DIR=/var/tmp/benignrepo/ev-$TAG VERIF_REPLAY_DIR=/var/tmp/benignrepo/rp-$TAG VERIF_SCRATCH=/var/tmp/verif-scratch-$TAG /verif/check $c > /var/tmp/benignrepo/$TAG-$c.log 2>&1
  e=$?
  echo "== benign $TAG check $c: exit=$e $(grep -E '^(VIOLATION|OK|INCONCLUSIVE|KNOWN)' /var/tmp/benignrepo/$TAG-$c.log | head -3 | cut -c1-300)"
done
rm -rf $D /var/tmp/verif-scratch-$TAG
