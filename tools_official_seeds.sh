#!/bin/sh
# Official procedure for the seeded changes: apply the patch to /repo itself, run the listed checks from /verif, undo it straight afterwards.
# usage: tools_official_seeds.sh "<seed>:<check>[,<check>]" ...      results appended to /verif/seeded/<seed>/runs.log
cd /verif
for item in "$@"; do
  seed=${item%%:*}; checks=$(echo ${item#*:} | tr ',' ' ')
  if [ -n "$(git -C /repo status --porcelain)" ]; then echo "REFUSING: /repo is not clean"; exit 3; fi
  git -C /repo apply /verif/seeded/$seed/patch.diff || { echo "$seed: patch does not apply"; continue; }
  for c in $checks; do
    VERIF_EVIDENCE_DIR=/var/tmp/official-ev VERIF_REPLAY_DIR=/var/tmp/official-rp ./check $c > /var/tmp/official-$seed-$c.log 2>&1; rc=$?
    line=$(grep -E '^(VIOLATION|OK|INCONCLUSIVE|KNOWN)' /var/tmp/official-$seed-$c.log | head -2 | tr '\n' ' ' | cut -c1-400)
    what=$(grep -E '^  what:' /var/tmp/official-$seed-$c.log | head -1 | cut -c1-500)
    echo "$(date -u +%FT%TZ) seed=$seed applied-to=/repo check=$c exit=$rc :: $line :: $what" | tee -a /verif/seeded/$seed/runs.log
  done
  git -C /repo checkout -- .
done
