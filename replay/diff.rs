// Differential native tests: the real crate against the spec-literal reference (refimpl.rs).
// Workload constants (N_SEEDS, N_MSGS, ...) are generated in front of this text by the driver.
extern crate std;
use crate::traits::{KeyGen, SerDes, Signer, Verifier};
use crate::types::Ph;
use rand_core::{CryptoRng, RngCore};
use std::vec::Vec;
#[path = "@VERIF@/replay/refimpl.rs"]
mod refimpl;
use refimpl::{Params, PreHash, P44, P65, P87};

struct ReplayRng(pub [u8; 32], pub u32);
impl RngCore for ReplayRng {
    fn next_u32(&mut self) -> u32 { unimplemented!() }
    fn next_u64(&mut self) -> u64 { unimplemented!() }
    fn fill_bytes(&mut self, d: &mut [u8]) { d.copy_from_slice(&self.0[..d.len()]); self.1 += 1; }
    fn try_fill_bytes(&mut self, d: &mut [u8]) -> Result<(), rand_core::Error> { d.copy_from_slice(&self.0[..d.len()]); self.1 += 1; Ok(()) }
}
impl CryptoRng for ReplayRng {}
struct Lcg(u64);
impl Lcg {
    fn next(&mut self) -> u64 { self.0 = self.0.wrapping_mul(6364136223846793005).wrapping_add(1442695040888963407); self.0 >> 33 }
    fn bytes(&mut self, n: usize) -> Vec<u8> { (0..n).map(|_| (self.next() & 255) as u8).collect() }
    fn arr32(&mut self) -> [u8; 32] { let v = self.bytes(32); let mut a = [0u8; 32]; a.copy_from_slice(&v); a }
}
fn ph_pair(i: u64) -> (Ph, PreHash) { match i % 3 { 0 => (Ph::SHA256, PreHash::Sha256), 1 => (Ph::SHA512, PreHash::Sha512), _ => (Ph::SHAKE128, PreHash::Shake128) } }

macro_rules! per_set {
    ($set:ident, $p:expr, $bad:ident, $stats:ident, $what:expr) => {{
        use crate::$set as S;
        let p: Params = $p;
        let mut rng = Lcg(SEED ^ (p.k as u64 * 1000003));
        for si in 0..N_SEEDS {
            let xi = rng.arr32();
            let (pk, sk) = S::KG::keygen_from_seed(&xi);
            let (rpk, rsk) = if $what == "derive" { (Vec::new(), Vec::new()) } else { refimpl::keygen_internal(&p, &xi) };
            let pkb = pk.clone().into_bytes(); let skb = sk.clone().into_bytes();
            if $what == "keygen" || $what == "all" {
                if pkb.to_vec() != rpk { std::println!("DIFF {} keygen pk differs from FIPS 204 KeyGen_internal, xi={:02x?}", stringify!($set), xi); $bad += 1; }
                if skb.to_vec() != rsk { std::println!("DIFF {} keygen sk differs from FIPS 204 KeyGen_internal, xi={:02x?}", stringify!($set), xi); $bad += 1; }
                let (pk2, sk2) = S::try_keygen_with_rng(&mut ReplayRng(xi, 0)).unwrap();
                if pk2.into_bytes() != pkb || sk2.into_bytes() != skb { std::println!("DIFF {} try_keygen_with_rng != keygen_from_seed(drawn bytes)", stringify!($set)); $bad += 1; }
            }
            if $what == "derive" || $what == "all" {
                let dpk = sk.get_public_key();
                if dpk.clone().into_bytes() != pkb { std::println!("DIFF {} derived pk bytes differ from generated pk, xi={:02x?}", stringify!($set), xi); $bad += 1; }
                let sk_rt = S::PrivateKey::try_from_bytes(skb).unwrap();
                let dpk2 = sk_rt.get_public_key();
                if dpk2.clone().into_bytes() != pkb { std::println!("DIFF {} pk derived from the round-tripped sk differs, xi={:02x?}", stringify!($set), xi); $bad += 1; }
                if si < 4 || $bad > 0 {
                    let msg = rng.bytes(5); let rnd = rng.arr32();
                    let sig = sk.try_sign_with_rng(&mut ReplayRng(rnd, 0), &msg, b"c").unwrap();
                    let mut sig_bad = sig; sig_bad[7] ^= 4;
                    for (nm, key) in [("derived", &dpk), ("derived-from-roundtrip", &dpk2)] {
                        if !key.verify(&msg, &sig, b"c") { std::println!("DIFF {} {} pk rejects a valid signature, xi={:02x?}", stringify!($set), nm, xi); $bad += 1; }
                        if key.verify(&msg, &sig_bad, b"c") { std::println!("DIFF {} {} pk accepts an invalid signature", stringify!($set), nm); $bad += 1; }
                    }
                }
                if $bad > 8 { break; }
            }
            if $what == "sign" || $what == "verify" || $what == "all" {
                let sk_rt = S::PrivateKey::try_from_bytes(skb).unwrap();
                let pk_rt = S::PublicKey::try_from_bytes(pkb).unwrap();
                for mi in 0..N_MSGS {
                    let mlen = match mi % 5 { 0 => 0, 1 => 1, 2 => 33, 3 => 136, _ => 300 };
                    let msg = rng.bytes(mlen);
                    let clen = match (mi + si) % 4 { 0 => 0, 1 => 1, 2 => 255, _ => 17 };
                    let ctx = rng.bytes(clen);
                    let rnd = rng.arr32();
                    let hashed = mi % 2 == 1;
                    let (ph, rph) = ph_pair(rng.next());
                    let key = if mi % 3 == 0 { &sk_rt } else { &sk };
                    let mp = if hashed { refimpl::format_hash(&ctx, &msg, &rph).unwrap() } else { refimpl::format_pure(&ctx, &msg).unwrap() };
                    let (rsig, iters, why) = refimpl::sign_internal(&p, &rsk, &mp, &rnd);
                    $stats.0 += iters as u64; for w in &why { if *w == 1 { $stats.1 += 1 } else { $stats.2 += 1 } }
                    let sig = if hashed { key.try_hash_sign_with_rng(&mut ReplayRng(rnd, 0), &msg, &ctx, &ph).unwrap() } else { key.try_sign_with_rng(&mut ReplayRng(rnd, 0), &msg, &ctx).unwrap() };
                    if ($what == "sign" || $what == "all") && sig.to_vec() != rsig {
                        std::println!("DIFF {} signature differs from FIPS 204 Sign (hashed={} iters={} rejections={:?}) xi={:02x?} msg={:02x?} ctx_len={} rnd={:02x?}", stringify!($set), hashed, iters, why, xi, msg, clen, rnd); $bad += 1;
                    }
                    let vkey = if mi % 2 == 0 { &pk } else { &pk_rt };
                    let v = if hashed { vkey.hash_verify(&msg, &sig, &ctx, &ph) } else { vkey.verify(&msg, &sig, &ctx) };
                    let rv = refimpl::verify_internal(&p, &rpk, &mp, &sig);
                    if v != rv || !v { std::println!("DIFF {} verify(real)={} verify(FIPS)={} on an honest signature (hashed={})", stringify!($set), v, rv, hashed); $bad += 1; }
                    if $what == "verify" || $what == "all" {
                        // mutated signatures: every structural region
                        let n = sig.len();
                        let regions = [0usize, p.lambda / 4 - 1, p.lambda / 4, p.lambda / 4 + 3, n - p.omega - p.k - 1, n - p.omega - p.k, n - p.k - 1, n - p.k, n - 1];
                        for (ri, &pos) in regions.iter().enumerate() {
                            let mut s2 = sig; s2[pos] ^= 1 << ((mi + ri) % 8);
                            let v2 = if hashed { vkey.hash_verify(&msg, &s2, &ctx, &ph) } else { vkey.verify(&msg, &s2, &ctx) };
                            let rv2 = refimpl::verify_internal(&p, &rpk, &mp, &s2);
                            if v2 != rv2 { std::println!("DIFF {} verify(real)={} verify(FIPS)={} on a signature mutated at byte {}", stringify!($set), v2, rv2, pos); $bad += 1; }
                        }
                        // other message / context / mode
                        let mut m2 = msg.clone(); m2.push(1);
                        if vkey.verify(&m2, &sig, &ctx) != refimpl::verify(&p, &rpk, &m2, &sig, &ctx) { std::println!("DIFF {} verify decision differs on another message", stringify!($set)); $bad += 1; }
                        // another context (extended, truncated, first byte changed, empty), in the mode the signature was made for
                        {
                            let mut alts: Vec<Vec<u8>> = Vec::new();
                            let mut c2 = ctx.clone(); if c2.len() < 255 { c2.push(7); alts.push(c2); }
                            if !ctx.is_empty() { alts.push(ctx[..ctx.len() - 1].to_vec()); let mut c3 = ctx.clone(); c3[0] ^= 0x40; alts.push(c3); alts.push(Vec::new()); }
                            for alt in &alts {
                                let va = if hashed { vkey.hash_verify(&msg, &sig, alt, &ph) } else { vkey.verify(&msg, &sig, alt) };
                                if va { std::println!("DIFF {} signature for a {}-byte context accepted under a different {}-byte context (hashed={})", stringify!($set), ctx.len(), alt.len(), hashed); $bad += 1; }
                            }
                        }
                        if !hashed && vkey.hash_verify(&msg, &sig, &ctx, &ph) { std::println!("DIFF {} pure signature accepted in pre-hash mode", stringify!($set)); $bad += 1; }
                        if hashed && vkey.verify(&msg, &sig, &ctx) { std::println!("DIFF {} pre-hash signature accepted in pure mode", stringify!($set)); $bad += 1; }
                    }
                }
            }
            if $what == "serdes" || $what == "all" {
                // public keys: every byte string deserialises and round-trips
                for pat in 0..4 {
                    let mut b = pkb;
                    match pat { 0 => b.iter_mut().for_each(|x| *x = 0), 1 => b.iter_mut().for_each(|x| *x = 0xFF), 2 => { let r = rng.bytes(b.len()); b.copy_from_slice(&r) }, _ => {} }
                    match S::PublicKey::try_from_bytes(b) { Ok(k) => { if k.into_bytes() != b { std::println!("DIFF {} public key round trip changes the bytes (pattern {})", stringify!($set), pat); $bad += 1; } }
                        Err(_) => { std::println!("DIFF {} public key bytes rejected (pattern {})", stringify!($set), pat); $bad += 1; } }
                }
                // private keys whose public parts (rho, K, tr) were altered are still accepted and must round-trip bit-exactly
                for pos in [3usize, 40, 64, 100, 127] {
                    let mut b = skb; b[pos] ^= 0x20;
                    match S::PrivateKey::try_from_bytes(b) { Ok(k) => { if k.into_bytes() != b { std::println!("DIFF {} private key with byte {} altered does not serialise back to the same bytes", stringify!($set), pos); $bad += 1; } }
                        Err(_) => { std::println!("DIFF {} private key with byte {} altered rejected", stringify!($set), pos); $bad += 1; } }
                }
                // private keys with ONE out-of-range eta field, in every polynomial of s1 and s2 (first / a middle / the last coefficient):
                // the reference decoder rejects each of them; an accepted one must at least serialise back to the same bytes
                {
                    let bl = if p.eta == 2 { 3usize } else { 4usize };
                    for poly in 0..(p.l + p.k) {
                        for coeff in [0usize, 101, 255] {
                            let mut b = skb;
                            let bit0 = (128 + poly * 32 * bl) * 8 + coeff * bl;
                            for t in 0..bl { b[(bit0 + t) / 8] |= 1 << ((bit0 + t) % 8); }      // all-ones field: 7 (eta = 2) or 15 (eta = 4), out of range
                            let want = refimpl::sk_decode(&p, &b).is_some();
                            match S::PrivateKey::try_from_bytes(b) {
                                Ok(k) => {
                                    if !want { std::println!("DIFF {} private key with an out-of-range field in eta-polynomial {} (coefficient {}) ACCEPTED (FIPS 204 skDecode: malformed)", stringify!($set), poly, coeff); $bad += 1; }
                                    if k.into_bytes() != b { std::println!("DIFF {} accepted private key (bad field in eta-polynomial {}) does not serialise back to the same bytes", stringify!($set), poly); $bad += 1; }
                                }
                                Err(_) => { if want { std::println!("DIFF {} in-range private key rejected", stringify!($set)); $bad += 1; } }
                            }
                            if $bad > 6 { break; }
                        }
                    }
                }
                // private keys: extremal in-range coefficient patterns built with the reference encoder
                for pat in 0..5 {
                    let top = 1i64 << 12;
                    let f = |i: usize, lo: i64, hi: i64| -> i64 { match pat { 0 => lo, 1 => hi, 2 => if i % 2 == 0 { lo } else { hi }, 4 => 0, _ => lo + ((i as i64 * 7) % (hi - lo + 1)) } };
                    let s1: Vec<refimpl::Poly> = (0..p.l).map(|_| core::array::from_fn(|i| f(i, -p.eta, p.eta))).collect();
                    let s2: Vec<refimpl::Poly> = (0..p.k).map(|_| core::array::from_fn(|i| f(i + 1, -p.eta, p.eta))).collect();
                    let t0: Vec<refimpl::Poly> = (0..p.k).map(|_| core::array::from_fn(|i| f(i, -top + 1, top))).collect();
                    let enc = refimpl::sk_encode(&p, &rsk[..32], &rsk[32..64], &rsk[64..128], &s1, &s2, &t0);
                    let mut b = skb; b.copy_from_slice(&enc);
                    match S::PrivateKey::try_from_bytes(b) { Ok(k) => { if k.into_bytes() != b { std::println!("DIFF {} private key round trip changes the bytes (pattern {})", stringify!($set), pat); $bad += 1; } }
                        Err(_) => { std::println!("DIFF {} in-range private key rejected (pattern {})", stringify!($set), pat); $bad += 1; } }
                }
            }
        }
    }};
}

fn run_all(what: &str) {
    let mut bad = 0u32;
    let mut stats = (0u64, 0u64, 0u64);
    per_set!(ml_dsa_44, P44, bad, stats, what);
    per_set!(ml_dsa_65, P65, bad, stats, what);
    per_set!(ml_dsa_87, P87, bad, stats, what);
    std::println!("STATS what={} loop_iterations={} rejections_first_test={} rejections_second_test={}", what, stats.0, stats.1, stats.2);
    assert!(bad == 0, "VERIF-PROPERTY-VIOLATED differential({}): {} disagreement(s) with the FIPS 204 reference", what, bad);
}

const FULL_EVERY: u64 = 1;
macro_rules! keygen_search {
    ($set:ident, $p:expr, $bad:ident) => {{
        use crate::$set as S;
        let p: Params = $p;
        for ctr in 0..(N_SEEDS as u64) {
            let mut xi = [0u8; 32]; xi[..8].copy_from_slice(&(ctr.wrapping_add(SEED << 20)).to_le_bytes());
            let r = std::panic::catch_unwind(|| { let (pk, sk) = S::KG::keygen_from_seed(&xi); let d = sk.get_public_key().into_bytes(); (pk.into_bytes(), sk.into_bytes(), d) });
            match r {
                Err(_) => { std::println!("DIFF {} keygen_from_seed panics, xi={:02x?}", stringify!($set), xi); $bad += 1; }
                Ok((pkb, skb, d)) => {
                    // every FULL_EVERY-th seed is compared with the reference directly (a defect shared by generation and derivation
                    // passes the generated-vs-derived filter); cheap independent filter for all seeds: t1 / t0 recombine to the same t
                    let full = ctr % FULL_EVERY == 0;
                    if full {
                        let (rpk, rsk) = refimpl::keygen_internal(&p, &xi);
                        if pkb.to_vec() != rpk || skb.to_vec() != rsk { std::println!("DIFF {} keygen differs from FIPS 204 KeyGen_internal, xi={:02x?}", stringify!($set), xi); $bad += 1; }
                    }
                    if d != pkb {
                        let (rpk, rsk) = refimpl::keygen_internal(&p, &xi);
                        if pkb.to_vec() != rpk || skb.to_vec() != rsk { std::println!("DIFF {} keygen differs from FIPS 204 KeyGen_internal (found by generated-vs-derived filter), xi={:02x?}", stringify!($set), xi); $bad += 1; }
                        if d.to_vec() != rpk { std::println!("DIFF {} derived pk differs from FIPS 204 pk, xi={:02x?}", stringify!($set), xi); $bad += 1; }
                    }
                }
            }
            if $bad > 4 { break; }
        }
    }};
}
#[test]
fn diff_keygen_search() {
    let mut bad = 0u32;
    keygen_search!(ml_dsa_44, P44, bad);
    keygen_search!(ml_dsa_65, P65, bad);
    keygen_search!(ml_dsa_87, P87, bad);
    assert!(bad == 0, "VERIF-PROPERTY-VIOLATED differential(keygen_search): {} disagreement(s) with the FIPS 204 reference", bad);
}
macro_rules! roundtrip_search {
    ($set:ident, $bad:ident) => {{
        use crate::$set as S;
        let mut xi = [0u8; 32]; xi[..8].copy_from_slice(&SEED.to_le_bytes());
        let (pk, sk) = S::KG::keygen_from_seed(&xi);
        let pk_d = sk.get_public_key();
        for i in 0..(N_SEEDS as u64) {
            let msg = i.to_le_bytes();
            let mut rnd = [0u8; 32]; rnd[..8].copy_from_slice(&(i ^ 0x5555).to_le_bytes());
            let r = std::panic::catch_unwind(|| {
                let sig = sk.try_sign_with_rng(&mut ReplayRng(rnd, 0), &msg, b"rt").unwrap();
                (pk.verify(&msg, &sig, b"rt"), pk_d.verify(&msg, &sig, b"rt"))
            });
            match r {
                Err(_) => { std::println!("DIFF {} sign/verify panics, message counter {}", stringify!($set), i); $bad += 1; }
                Ok((a, b)) => if !a || !b { std::println!("DIFF {} honest signature rejected (generated pk: {}, derived pk: {}), key seed {:02x?}, message counter {}", stringify!($set), a, b, &xi[..8], i); $bad += 1; }
            }
            if $bad > 2 { break; }
        }
    }};
}
/// directed search for rare completeness failures (events of probability about 1e-4 per signature): honest sign -> verify
#[test]
fn diff_roundtrip_search() {
    let mut bad = 0u32;
    roundtrip_search!(ml_dsa_87, bad);
    if bad == 0 { roundtrip_search!(ml_dsa_65, bad); }
    if bad == 0 { roundtrip_search!(ml_dsa_44, bad); }
    assert!(bad == 0, "VERIF-PROPERTY-VIOLATED roundtrip: {} honest signature(s) rejected", bad);
}
#[test] fn diff_keygen() { run_all("keygen") }
#[test] fn diff_sign() { run_all("sign") }
#[test] fn diff_verify() { run_all("verify") }
#[test] fn diff_derive() { run_all("derive") }
#[test] fn diff_serdes() { run_all("serdes") }
