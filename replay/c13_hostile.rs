// Native replay / confirmation workload for C13: hostile inputs through the public API with debug assertions and
// overflow checks on (dev profile).  Every call must return a value or an error.
extern crate std;
use crate::traits::{KeyGen, SerDes, Signer, Verifier};
use crate::types::Ph;
use rand_core::{CryptoRng, RngCore};
use std::vec::Vec;

struct Lcg(u64);
impl Lcg {
    fn next(&mut self) -> u64 { self.0 = self.0.wrapping_mul(6364136223846793005).wrapping_add(1442695040888963407); self.0 >> 33 }
}
struct FixedRng;
impl RngCore for FixedRng {
    fn next_u32(&mut self) -> u32 { unimplemented!() }
    fn next_u64(&mut self) -> u64 { unimplemented!() }
    fn fill_bytes(&mut self, d: &mut [u8]) { d.fill(3) }
    fn try_fill_bytes(&mut self, d: &mut [u8]) -> Result<(), rand_core::Error> { d.fill(3); Ok(()) }
}
impl CryptoRng for FixedRng {}

macro_rules! guard {
    ($bad:ident, $what:expr, $body:expr) => {{
        let r = std::panic::catch_unwind(std::panic::AssertUnwindSafe(|| { let _ = $body; }));
        if r.is_err() { std::println!("C13 PANIC in {}", $what); $bad += 1; }
    }};
}

macro_rules! hostile {
    ($set:ident, $bad:ident) => {{
        use crate::$set as S;
        let mut rng = Lcg(0xC13 + S::PK_LEN as u64);
        let (pk, sk) = S::KG::keygen_from_seed(&[0x42u8; 32]);
        let pkb = pk.clone().into_bytes(); let skb = sk.clone().into_bytes();
        let sig = sk.try_sign_with_rng(&mut FixedRng, b"msg", b"ctx").unwrap();
        // arbitrary public-key bytes: deserialise, re-serialise, verify
        for pat in 0..6 {
            let mut b = pkb;
            match pat { 0 => b.iter_mut().for_each(|x| *x = 0), 1 => b.iter_mut().for_each(|x| *x = 0xFF), 2 => b.iter_mut().for_each(|x| *x = (rng.next() & 255) as u8), 3 => { b[40] ^= 0x10 }, 4 => { let n = b.len(); b[n - 1] ^= 0x80 }, _ => {} }
            guard!($bad, std::format!("{} PublicKey::try_from_bytes / into_bytes / verify (pattern {})", stringify!($set), pat), {
                if let Ok(k) = S::PublicKey::try_from_bytes(b) { let v = k.verify(b"msg", &sig, b"ctx"); let hv = k.hash_verify(b"msg", &sig, b"ctx", &Ph::SHA512); let bb = k.into_bytes(); (v, hv, bb[0]) } else { (false, false, 0u8) }
            });
        }
        // arbitrary signature bytes
        for pat in 0..8 {
            let mut s = sig;
            match pat { 0 => s.iter_mut().for_each(|x| *x = 0), 1 => s.iter_mut().for_each(|x| *x = 0xFF), 2 => s.iter_mut().for_each(|x| *x = (rng.next() & 255) as u8),
                        3 => { let n = s.len(); s[n - 1] = 0xFF }, 4 => { let n = s.len(); s[n - 3] = 200 }, 5 => { s[70] ^= 0xFF }, 6 => { let n = s.len(); for x in s[n - 90..].iter_mut() { *x = 7 } }, _ => {} }
            guard!($bad, std::format!("{} verify on hostile signature bytes (pattern {})", stringify!($set), pat), { (pk.verify(b"msg", &s, b"ctx"), pk.hash_verify(b"msg", &s, b"", &Ph::SHAKE128)) });
        }
        // messages / contexts of any length
        for n in [0usize, 1, 255, 256, 257, 1000, 70000] {
            let ctx: Vec<u8> = (0..n).map(|i| i as u8).collect();
            guard!($bad, std::format!("{} sign/verify with a {}-byte context / message", stringify!($set), n), {
                let a = sk.try_sign_with_rng(&mut FixedRng, &ctx, &ctx).is_ok(); let b = pk.verify(&ctx, &sig, &ctx); let c = sk.try_hash_sign_with_rng(&mut FixedRng, &ctx, &ctx, &Ph::SHA256).is_ok(); (a, b, c)
            });
        }
        // arbitrary private-key bytes; every accepted key must sign, serialise and derive without panicking
        let mut accepted = 0;
        for pat in 0..40 {
            let mut b = skb;
            match pat {
                0 => b.iter_mut().for_each(|x| *x = 0),
                1 => b.iter_mut().for_each(|x| *x = 0xFF),
                2 => b.iter_mut().for_each(|x| *x = (rng.next() & 255) as u8),
                3 => { b[5] ^= 1 }                        // rho
                4 => { b[40] ^= 1 }                       // K
                5 => { b[100] ^= 1 }                      // tr
                6 => { let n = b.len(); b[n - 1] ^= 0x80 } // last t0 byte
                7 => { let n = b.len(); b[n - 32 * 13 * 2] ^= 1 } // a t0 byte
                8 => { let n = b.len(); for x in b[n - 200..].iter_mut() { *x = 0 } }
                9 => { let n = b.len(); for x in b[n - 200..].iter_mut() { *x = 0xFF } }
                _ => { let p = 128 + (rng.next() as usize) % (b.len() - 128); b[p] ^= 1 << (rng.next() % 8); }
            }
            guard!($bad, std::format!("{} PrivateKey::try_from_bytes then sign / into_bytes / get_public_key (pattern {})", stringify!($set), pat), {
                if let Ok(k) = S::PrivateKey::try_from_bytes(b) {
                    accepted += 1;
                    let s1 = k.try_sign_with_rng(&mut FixedRng, b"m", b"").is_ok();
                    let s2 = k.try_hash_sign_with_rng(&mut FixedRng, b"m", b"c", &Ph::SHA256).is_ok();
                    let p = k.get_public_key();
                    let pb = p.into_bytes();
                    let kb = k.into_bytes();
                    (s1, s2, pb[0], kb[0])
                } else { (false, false, 0u8, 0u8) }
            });
        }
        std::println!("C13 {}: {} hostile private keys accepted and exercised", stringify!($set), accepted);
    }};
}

#[test]
fn c13_hostile_inputs() {
    let mut bad = 0;
    hostile!(ml_dsa_44, bad);
    hostile!(ml_dsa_65, bad);
    hostile!(ml_dsa_87, bad);
    assert!(bad == 0, "VERIF-PROPERTY-VIOLATED C13: {} public API call(s) panicked", bad);
}
