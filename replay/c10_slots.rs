// Native confirmation workload for C10: every polynomial slot of s1 and s2, every out-of-range field value at the first,
// a middle and the last coefficient must make PrivateKey::try_from_bytes fail; in-range extremes must be accepted and
// re-serialise to the same bytes.
extern crate std;
use crate::traits::{KeyGen, SerDes};

fn set_field(b: &mut [u8], base: usize, c: usize, idx: usize, val: u32) {
    for j in 0..c {
        let bit = base * 8 + idx * c + j;
        let (by, bi) = (bit / 8, bit % 8);
        b[by] = (b[by] & !(1u8 << bi)) | ((((val >> j) & 1) as u8) << bi);
    }
}

macro_rules! slots {
    ($set:ident, $k:expr, $l:expr, $eta:expr, $bad:ident) => {{
        use crate::$set as S;
        let (_pk, sk) = S::KG::keygen_from_seed(&[0x10u8; 32]);
        let good = sk.into_bytes();
        let c: usize = if $eta == 2 { 3 } else { 4 };
        let sec = 32 * c;
        for slot in 0..($k + $l) {
            let base = 128 + slot * sec;
            for idx in [0usize, 127, 255] {
                for val in (2 * $eta + 1)..(1u32 << c) {
                    let mut b = good; set_field(&mut b, base, c, idx, val);
                    if S::PrivateKey::try_from_bytes(b).is_ok() { std::println!("C10 {} slot {} coeff {} field {} (out of range) accepted", stringify!($set), slot, idx, val); $bad += 1; }
                }
                for val in [0u32, 2 * $eta] {
                    let mut b = good; set_field(&mut b, base, c, idx, val);
                    match S::PrivateKey::try_from_bytes(b) {
                        Ok(k) => { if k.into_bytes() != b { std::println!("C10 {} slot {} coeff {} field {}: round trip differs", stringify!($set), slot, idx, val); $bad += 1; } }
                        Err(_) => { std::println!("C10 {} slot {} coeff {} field {} (in range) rejected", stringify!($set), slot, idx, val); $bad += 1; }
                    }
                }
            }
        }
    }};
}

#[test]
fn c10_all_slots() {
    let mut bad = 0;
    slots!(ml_dsa_44, 4usize, 4usize, 2u32, bad);
    slots!(ml_dsa_65, 6usize, 5usize, 4u32, bad);
    slots!(ml_dsa_87, 8usize, 7usize, 2u32, bad);
    assert!(bad == 0, "VERIF-PROPERTY-VIOLATED C10: {} private-key acceptance decision(s) are wrong", bad);
}
