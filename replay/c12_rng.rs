// Native replay for C12: fault-injecting RNG through the public API.
extern crate std;
use crate::traits::{KeyGen, Signer};
use crate::types::Ph;
use rand_core::{CryptoRng, RngCore};

/// fails on its `fail_at`-th request (0-based) after writing `partial` bytes; infallible methods panic
struct FaultRng { req: usize, fail_at: usize, partial: usize }
impl FaultRng {
    fn err() -> rand_core::Error { rand_core::Error::from(core::num::NonZeroU32::new(rand_core::Error::CUSTOM_START).unwrap()) }
}
impl RngCore for FaultRng {
    fn next_u32(&mut self) -> u32 { panic!("infallible RNG method used") }
    fn next_u64(&mut self) -> u64 { panic!("infallible RNG method used") }
    fn fill_bytes(&mut self, _d: &mut [u8]) { panic!("infallible RNG method used") }
    fn try_fill_bytes(&mut self, d: &mut [u8]) -> Result<(), rand_core::Error> {
        let me = self.req; self.req += 1;
        if me == self.fail_at {
            let n = core::cmp::min(self.partial, d.len());
            for b in d[..n].iter_mut() { *b = 0xA5; }
            return Err(Self::err());
        }
        for (i, b) in d.iter_mut().enumerate() { *b = (i as u8) ^ 0x3C; }
        Ok(())
    }
}
impl CryptoRng for FaultRng {}

macro_rules! rng_case {
    ($set:ident, $partial:expr, $bad:ident) => {{
        use crate::$set as S;
        let p: usize = $partial;
        let r = std::panic::catch_unwind(|| S::try_keygen_with_rng(&mut FaultRng { req: 0, fail_at: 0, partial: p }).is_err());
        if !matches!(r, Ok(true)) { std::println!("{} partial={} try_keygen_with_rng -> {:?} (want Err)", stringify!($set), p, r.is_ok()); $bad += 1; }
        let (_pk, sk) = S::KG::keygen_from_seed(&[5u8; 32]);
        let sk1 = sk.clone();
        let r = std::panic::catch_unwind(move || sk1.try_sign_with_rng(&mut FaultRng { req: 0, fail_at: 0, partial: p }, &[1, 2, 3], &[]).is_err());
        if !matches!(r, Ok(true)) { std::println!("{} partial={} try_sign_with_rng -> {:?} (want Err)", stringify!($set), p, r); $bad += 1; }
        for ph in [Ph::SHA256, Ph::SHA512, Ph::SHAKE128] {
            let sk2 = sk.clone();
            let r = std::panic::catch_unwind(move || sk2.try_hash_sign_with_rng(&mut FaultRng { req: 0, fail_at: 0, partial: p }, &[1, 2, 3], &[], &ph).is_err());
            if !matches!(r, Ok(true)) { std::println!("{} partial={} try_hash_sign_with_rng -> {:?} (want Err)", stringify!($set), p, r); $bad += 1; }
        }
        // a healthy generator must be used through the fallible interface only (the infallible methods panic here)
        let sk3 = sk.clone();
        let r = std::panic::catch_unwind(move || sk3.try_sign_with_rng(&mut FaultRng { req: 0, fail_at: 99, partial: 0 }, &[1, 2, 3], &[]).is_ok());
        if !matches!(r, Ok(true)) { std::println!("{} healthy RNG: try_sign_with_rng -> {:?} (want Ok)", stringify!($set), r); $bad += 1; }
        let sk4 = sk.clone();
        let r = std::panic::catch_unwind(move || sk4.try_hash_sign_with_rng(&mut FaultRng { req: 0, fail_at: 99, partial: 0 }, &[1, 2, 3], &[], &Ph::SHA512).is_ok());
        if !matches!(r, Ok(true)) { std::println!("{} healthy RNG: try_hash_sign_with_rng -> {:?} (want Ok)", stringify!($set), r); $bad += 1; }
        let r = std::panic::catch_unwind(|| S::try_keygen_with_rng(&mut FaultRng { req: 0, fail_at: 99, partial: 0 }).is_ok());
        if !matches!(r, Ok(true)) { std::println!("{} healthy RNG: try_keygen_with_rng -> {:?} (want Ok)", stringify!($set), r.is_ok()); $bad += 1; }
    }};
}

#[test]
fn c12_rng_faults() {
    let mut bad = 0;
    for &p in PARTIALS {
        rng_case!(ml_dsa_44, p, bad);
        rng_case!(ml_dsa_65, p, bad);
        rng_case!(ml_dsa_87, p, bad);
    }
    assert!(bad == 0, "VERIF-PROPERTY-VIOLATED C12: {} RNG fault case(s) behave wrongly", bad);
}
