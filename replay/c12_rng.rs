// Native replay for C12: fault-injecting RNG through the public API.
extern crate std;
use crate::traits::{KeyGen, Signer};
use crate::types::Ph;
use rand_core::{CryptoRng, RngCore};

/// fails on its `fail_at`-th request (0-based) after writing `partial` bytes; infallible methods panic
/// `code`: index into CODES (error value reported); `fail_n`: number of consecutive failing requests starting at `fail_at`
struct FaultRng { req: usize, fail_at: usize, partial: usize }
static CODE: core::sync::atomic::AtomicU32 = core::sync::atomic::AtomicU32::new(0);
static FAIL_N: core::sync::atomic::AtomicUsize = core::sync::atomic::AtomicUsize::new(1);
impl FaultRng {
    fn err() -> rand_core::Error {
        let c = CODE.load(core::sync::atomic::Ordering::Relaxed);
        rand_core::Error::from(core::num::NonZeroU32::new(if c == 0 { rand_core::Error::CUSTOM_START } else { c }).unwrap())
    }
}
impl RngCore for FaultRng {
    fn next_u32(&mut self) -> u32 { panic!("infallible RNG method used") }
    fn next_u64(&mut self) -> u64 { panic!("infallible RNG method used") }
    fn fill_bytes(&mut self, _d: &mut [u8]) { panic!("infallible RNG method used") }
    fn try_fill_bytes(&mut self, d: &mut [u8]) -> Result<(), rand_core::Error> {
        let me = self.req; self.req += 1;
        if me >= self.fail_at && me < self.fail_at + FAIL_N.load(core::sync::atomic::Ordering::Relaxed) {
            let n = core::cmp::min(self.partial, d.len());
            for b in d[..n].iter_mut() { *b = 0xA5; }
            return Err(Self::err());
        }
        for (i, b) in d.iter_mut().enumerate() { *b = (i as u8) ^ 0x3C; }
        Ok(())
    }
}
impl CryptoRng for FaultRng {}

macro_rules! rng_case {
    ($set:ident, $partial:expr, $bad:ident) => {{
        use crate::$set as S;
        let p: usize = $partial;
        let r = std::panic::catch_unwind(|| S::try_keygen_with_rng(&mut FaultRng { req: 0, fail_at: 0, partial: p }).is_err());
        if !matches!(r, Ok(true)) { std::println!("{} partial={} try_keygen_with_rng -> {:?} (want Err)", stringify!($set), p, r.is_ok()); $bad += 1; }
        let (_pk, sk) = S::KG::keygen_from_seed(&[5u8; 32]);
        let sk1 = sk.clone();
        let r = std::panic::catch_unwind(move || sk1.try_sign_with_rng(&mut FaultRng { req: 0, fail_at: 0, partial: p }, &[1, 2, 3], &[]).is_err());
        if !matches!(r, Ok(true)) { std::println!("{} partial={} try_sign_with_rng -> {:?} (want Err)", stringify!($set), p, r); $bad += 1; }
        for ph in [Ph::SHA256, Ph::SHA512, Ph::SHAKE128] {
            let sk2 = sk.clone();
            let r = std::panic::catch_unwind(move || sk2.try_hash_sign_with_rng(&mut FaultRng { req: 0, fail_at: 0, partial: p }, &[1, 2, 3], &[], &ph).is_err());
            if !matches!(r, Ok(true)) { std::println!("{} partial={} try_hash_sign_with_rng -> {:?} (want Err)", stringify!($set), p, r); $bad += 1; }
        }
        // a healthy generator must be used through the fallible interface only (the infallible methods panic here)
        let sk3 = sk.clone();
        let r = std::panic::catch_unwind(move || sk3.try_sign_with_rng(&mut FaultRng { req: 0, fail_at: 99, partial: 0 }, &[1, 2, 3], &[]).is_ok());
        if !matches!(r, Ok(true)) { std::println!("{} healthy RNG: try_sign_with_rng -> {:?} (want Ok)", stringify!($set), r); $bad += 1; }
        let sk4 = sk.clone();
        let r = std::panic::catch_unwind(move || sk4.try_hash_sign_with_rng(&mut FaultRng { req: 0, fail_at: 99, partial: 0 }, &[1, 2, 3], &[], &Ph::SHA512).is_ok());
        if !matches!(r, Ok(true)) { std::println!("{} healthy RNG: try_hash_sign_with_rng -> {:?} (want Ok)", stringify!($set), r); $bad += 1; }
        let r = std::panic::catch_unwind(|| S::try_keygen_with_rng(&mut FaultRng { req: 0, fail_at: 99, partial: 0 }).is_ok());
        if !matches!(r, Ok(true)) { std::println!("{} healthy RNG: try_keygen_with_rng -> {:?} (want Ok)", stringify!($set), r.is_ok()); $bad += 1; }
    }};
}

#[test]
fn c12_rng_faults() {
    let mut bad = 0;
    // error values: rand_core's custom / internal ranges and every OS errno (a handler may special-case one, e.g. EINTR / EAGAIN);
    // fault windows: the request fails once, or keeps failing on retries
    let mut codes: std::vec::Vec<u32> = std::vec![0, rand_core::Error::INTERNAL_START, u32::MAX];
    codes.extend(1u32..=140);
    for &fail_n in &[1usize, 2, 3, 4, 100] {
        FAIL_N.store(fail_n, core::sync::atomic::Ordering::Relaxed);
        for &c in &codes {
            if fail_n > 1 && c > 140 { continue; }
            CODE.store(c, core::sync::atomic::Ordering::Relaxed);
            let before = bad;
            for &p in PARTIALS {
                if (c != 0 || fail_n != 1) && p != PARTIALS[0] && p != PARTIALS[PARTIALS.len() - 1] { continue; }
                rng_case!(ml_dsa_44, p, bad);
                if c == 0 && fail_n == 1 { rng_case!(ml_dsa_65, p, bad); rng_case!(ml_dsa_87, p, bad); }
            }
            if bad != before { std::println!("   (error code {:#x}, {} consecutive failing request(s))", c, fail_n); }
            if bad > 12 { break; }
        }
    }
    CODE.store(0, core::sync::atomic::Ordering::Relaxed); FAIL_N.store(1, core::sync::atomic::Ordering::Relaxed);
    assert!(bad == 0, "VERIF-PROPERTY-VIOLATED C12: {} RNG fault case(s) behave wrongly", bad);
}
