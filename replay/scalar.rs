// Native evaluation of the real scalar kernels (translator validation + counterexample replay).
// Included into a scratch copy of the crate as `#[cfg(test)] mod verif_replay` together with a generated CASES table.
extern crate std;
use std::format;
use std::string::String;
use std::vec::Vec;

fn show_res(r: Result<i32, &'static str>) -> String {
    match r {
        Ok(x) => format!("{}", x),
        Err(_) => String::from("E"),
    }
}

/// result of the real function on the given arguments ("PANIC" if it panics in this profile)
pub fn eval(name: &str, a: &[i64]) -> String {
    let name = String::from(name);
    let a: Vec<i64> = a.to_vec();
    let r = std::panic::catch_unwind(move || -> String {
        match name.as_str() {
            "partial_reduce32" => format!("{}", crate::helpers::partial_reduce32(a[0] as i32)),
            "full_reduce32" => format!("{}", crate::helpers::full_reduce32(a[0] as i32)),
            "center_mod" => format!("{}", crate::helpers::center_mod(a[0] as i32)),
            "mont_reduce" => format!("{}", crate::helpers::mont_reduce(a[0])),
            "partial_reduce64" => format!("{}", crate::helpers::partial_reduce64(a[0])),
            "decompose" => {
                let (r1, r0) = crate::high_low::decompose(a[0] as i32, a[1] as i32);
                format!("{} {}", r1, r0)
            }
            "high_bits" => format!("{}", crate::high_low::high_bits(a[0] as i32, a[1] as i32)),
            "low_bits" => format!("{}", crate::high_low::low_bits(a[0] as i32, a[1] as i32)),
            "make_hint" => format!("{}", crate::high_low::make_hint(a[0] as i32, a[1] as i32, a[2] as i32) as i32),
            "use_hint" => format!("{}", crate::high_low::use_hint(a[0] as i32, a[1] as i32, a[2] as i32)),
            "coeff_from_three_bytes" => show_res(crate::conversion::coeff_from_three_bytes::<false>([a[0] as u8, a[1] as u8, a[2] as u8])),
            "coeff_from_half_byte" => show_res(crate::conversion::coeff_from_half_byte::<false>(a[0] as i32, a[1] as u8)),
            _ => String::from("UNKNOWN"),
        }
    });
    match r {
        Ok(s) => s,
        Err(_) => String::from("PANIC"),
    }
}

fn show_opt(r: Option<i64>) -> String {
    match r {
        Some(x) => format!("{}", x),
        None => String::from("E"),
    }
}

/// what FIPS 204 defines for the same arguments (None: the function is specified by congruence+range, see `holds`)
pub fn expected(name: &str, a: &[i64]) -> Option<String> {
    use super::spec;
    Some(match name {
        "full_reduce32" => format!("{}", spec::md(a[0], spec::Q)),
        "center_mod" => format!("{}", spec::mod_pm(a[0], spec::Q)),
        "decompose" => {
            let (r1, r0) = spec::decompose(a[0], a[1]);
            format!("{} {}", r1, r0)
        }
        "high_bits" => format!("{}", spec::high_bits(a[0], a[1])),
        "low_bits" => format!("{}", spec::low_bits(a[0], a[1])),
        "make_hint" => format!("{}", spec::make_hint(a[0], a[1], a[2]) as i32),
        "use_hint" => format!("{}", spec::use_hint(a[0], a[1], a[2])),
        "coeff_from_three_bytes" => show_opt(spec::coeff_from_three_bytes(a[0] as u8, a[1] as u8, a[2] as u8)),
        "coeff_from_half_byte" => show_opt(spec::coeff_from_half_byte(a[0], a[1] as u8)),
        _ => return None,
    })
}

/// does the property hold for this input?
pub fn holds(name: &str, a: &[i64]) -> bool {
    use super::spec;
    let got = eval(name, a);
    if got == "PANIC" || got == "UNKNOWN" {
        return false;
    }
    if let Some(e) = expected(name, a) {
        return e == got;
    }
    let r: i128 = got.parse::<i128>().unwrap();
    let q = spec::Q as i128;
    match name {
        "partial_reduce32" => (a[0] as i128 - r).rem_euclid(q) == 0 && r > -q && r < q,
        "mont_reduce" => (r * (1i128 << 32) - a[0] as i128).rem_euclid(q) == 0 && r > -q && r < q,
        "partial_reduce64" => (a[0] as i128 - r).rem_euclid(q) == 0 && r > -2 * q && r < 2 * q,
        _ => false,
    }
}
