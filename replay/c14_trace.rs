// Native trace probe for C14: runs ONE kernel on ONE secret input (chosen by environment variables) inside `ct_target`,
// so that an instruction-counting tool (valgrind --tool=callgrind --toggle-collect=*ct_target*) can compare the executed
// instruction stream for different secrets with identical public inputs.  Included as `#[cfg(test)] mod verif_replay`.
extern crate std;
use crate::types::{R, T};
use crate::Q;
use std::string::String;

struct Gen(u64);
impl Gen {
    fn next(&mut self) -> u64 { self.0 = self.0.wrapping_mul(6364136223846793005).wrapping_add(1442695040888963407); self.0 >> 29 }
}

/// coefficient pattern: mode 0 = every coefficient equals `val`; mode 1 = pseudo-random in [lo, hi] seeded by `val`;
/// mode 2 = `val` at even positions, lo at odd ones
fn coeffs(mode: u64, val: i64, lo: i64, hi: i64) -> [i32; 256] {
    let span = (hi - lo + 1) as u64;
    let mut g = Gen(val as u64 ^ 0x9E37_79B9_7F4A_7C15);
    let clamp = |v: i64| -> i32 { (lo + (v - lo).rem_euclid(span as i64)) as i32 };
    core::array::from_fn(|i| match mode {
        0 => clamp(val),
        1 => (lo + (g.next() % span) as i64) as i32,
        _ => if i % 2 == 0 { clamp(val) } else { lo as i32 },
    })
}

/// (lo, hi) of the coefficient domain of each kernel (its documented input range)
fn domain(kernel: &str) -> (i64, i64) {
    let q = i64::from(Q);
    match kernel {
        "full_reduce32" | "partial_reduce32" => (-(1 << 30), 1 << 30),
        "decompose" | "make_hint" | "mat_vec_mul" => (0, q - 1),
        "power2round" => (-4, q + 3),       // t = A s1 + s2 before / after reduction: the callers' values lie in [-eta, q - 1 + eta]
        "bit_pack" => (-((1 << 17) - 1), 1 << 17),
        "simple_bit_pack" => (0, 1023),
        "hint_bit_pack" => (0, 1),
        "w1_encode" => (0, 43),
        _ => (-(q - 1), q - 1),
    }
}

pub struct Inputs { a: [[i32; 256]; 8], bytes: [u8; 64] }

#[inline(never)]
fn ct_target(kernel: &str, inp: &Inputs) -> u64 {
    let mut acc: u64 = 0;
    let coeffs = |k: usize| -> [i32; 256] { inp.a[k] };
    match kernel {
        "infinity_norm" => { let w: [R; 4] = core::array::from_fn(|k| R(coeffs(k))); acc += crate::helpers::infinity_norm(&w) as u64; }
        "is_in_range" => { let w = R(coeffs(0)); acc += u64::from(crate::helpers::is_in_range(&w, Q, Q)); }
        "center_mod" => { for c in coeffs(0) { acc = acc.wrapping_add(crate::helpers::center_mod(c) as u64); } }
        "full_reduce32" => { for c in coeffs(0) { acc = acc.wrapping_add(crate::helpers::full_reduce32(c) as u64); } }
        "partial_reduce32" => { for c in coeffs(0) { acc = acc.wrapping_add(crate::helpers::partial_reduce32(c) as u64); } }
        "mont_reduce" => { for c in coeffs(0) { acc = acc.wrapping_add(crate::helpers::mont_reduce(i64::from(c) * 8_380_000) as u64); } }
        "decompose" => { for g2 in [(Q - 1) / 88, (Q - 1) / 32] { for c in coeffs(0) { let (a, b) = crate::high_low::decompose(g2, c); acc = acc.wrapping_add((a ^ b) as u64); } } }
        "make_hint" => { for g2 in [(Q - 1) / 88, (Q - 1) / 32] { let z = coeffs(1); for (i, c) in coeffs(0).iter().enumerate() { acc += u64::from(crate::high_low::make_hint(g2, z[i].rem_euclid(g2), *c)); } } }
        "power2round" => { let r: [R; 4] = core::array::from_fn(|k| R(coeffs(k))); let (a, b) = crate::high_low::power2round(&r); acc = acc.wrapping_add((a[0].0[3] ^ b[1].0[5]) as u64); }
        "bit_pack" => {
            let mut out = [0u8; 32 * 18];
            crate::conversion::bit_pack(&R(coeffs(0)), (1 << 17) - 1, 1 << 17, &mut out); acc += u64::from(out[5]);
            let mut out = [0u8; 32 * 3];
            crate::conversion::bit_pack(&R(coeffs(0).map(|c| c.rem_euclid(5) - 2)), 2, 2, &mut out); acc += u64::from(out[5]);
            let mut out = [0u8; 32 * 13];
            crate::conversion::bit_pack(&R(coeffs(0).map(|c| c.rem_euclid(1 << 13) - ((1 << 12) - 1))), (1 << 12) - 1, 1 << 12, &mut out); acc += u64::from(out[5]);
        }
        "simple_bit_pack" => { let mut out = [0u8; 32 * 10]; crate::conversion::simple_bit_pack(&R(coeffs(0)), 1023, &mut out); acc += u64::from(out[7]); }
        "hint_bit_pack" => {
            let h: [R; 4] = core::array::from_fn(|k| { let c = coeffs(k); R(core::array::from_fn(|i| if i % 16 == k { c[i] } else { 0 })) });
            let mut y = [0u8; 84]; crate::conversion::hint_bit_pack::<true, 4>(80, &h, &mut y); acc += u64::from(y[81]);
        }
        "ntt" => { let w: [R; 2] = core::array::from_fn(|k| R(coeffs(k))); let t = crate::ntt::ntt(&w); acc = acc.wrapping_add(t[1].0[9] as u64); }
        "inv_ntt" => { let w: [T; 2] = core::array::from_fn(|k| T(coeffs(k))); let t = crate::ntt::inv_ntt(&w); acc = acc.wrapping_add(t[1].0[9] as u64); }
        "mat_vec_mul" => {
            let a: [[T; 2]; 2] = core::array::from_fn(|i| core::array::from_fn(|j| T(coeffs(2 * i + j))));
            let u: [T; 2] = core::array::from_fn(|k| T(coeffs(4 + k)));
            let t = crate::helpers::mat_vec_mul(&a, &u); acc = acc.wrapping_add(t[1].0[9] as u64);
        }
        "to_mont" => { let u: [T; 2] = core::array::from_fn(|k| T(coeffs(k))); let t = crate::helpers::to_mont(&u); acc = acc.wrapping_add(t[1].0[9] as u64); }
        "expand_mask" => { let rho = inp.bytes; let y: [R; 4] = crate::hashing::expand_mask(1 << 17, &rho, 0); acc = acc.wrapping_add(y[3].0[1] as u64); }
        "w1_encode" => { let w: [R; 4] = core::array::from_fn(|k| R(coeffs(k))); let mut o = [0u8; 768]; crate::encodings::w1_encode::<4>((Q - 1) / 88, &w, &mut o); acc += u64::from(o[17]); }
        "keygen_ct" => { let mut xi = [0u8; 32]; xi.copy_from_slice(&inp.bytes[..32]); let (_pk, sk) = crate::ml_dsa::key_gen_internal::<true, 4, 4, 1312, 2560>(2, &xi); acc += u64::from(sk.tr[0]); }
        "sign_ct" => {
            let (_pk, sk) = crate::ml_dsa::key_gen_internal::<true, 4, 4, 1312, 2560>(2, &[7u8; 32]);
            let mut rnd = [0u8; 32]; rnd.copy_from_slice(&inp.bytes[32..]);
            let sig: [u8; 2420] = crate::ml_dsa::sign_internal::<true, 4, 4, 32, 2420, 2560, 768>(78, 1 << 17, (Q - 1) / 88, 80, 39, &sk, b"message", &[1], &[2], &[3], rnd, true);
            acc += u64::from(sig[100]);
        }
        "sample_in_ball_ct" => { let c = crate::hashing::sample_in_ball::<true>(39, &inp.bytes[..32]); acc = acc.wrapping_add(c.0[200] as u64); }
        "expand_a_ct" => { let mut rho = [0u8; 32]; rho.copy_from_slice(&inp.bytes[..32]); let a: [[T; 2]; 2] = crate::hashing::expand_a::<true, 2, 2>(&rho); acc = acc.wrapping_add(a[1][1].0[3] as u64); }
        "expand_s_ct" => { let (s1, s2): ([R; 2], [R; 2]) = crate::hashing::expand_s::<true, 2, 2>(2, &inp.bytes); acc = acc.wrapping_add((s1[0].0[1] ^ s2[1].0[2]) as u64); }
        "pipeline" => {
            // key generation + signing in constant-time test mode (the body of dudect_keygen_sign_with_rng), ML-DSA-44
            let mut xi = [0u8; 32]; let mut rnd = [0u8; 32];
            xi.copy_from_slice(&inp.bytes[..32]); rnd.copy_from_slice(&inp.bytes[32..]);
            let (_pk, sk) = crate::ml_dsa::key_gen_internal::<true, 4, 4, 1312, 2560>(2, &xi);
            let sig: [u8; 2420] = crate::ml_dsa::sign_internal::<true, 4, 4, 32, 2420, 2560, 768>(78, 1 << 17, (Q - 1) / 88, 80, 39, &sk, b"message", &[1], &[2], &[3], rnd, true);
            acc += u64::from(sig[100]);
        }
        _ => { panic!("unknown kernel"); }
    }
    acc
}

static mut MARK: u64 = 0;

#[test]
fn c14_trace_probe() {
    let kernel = std::env::var("VERIF_CT_KERNEL").unwrap_or_else(|_| String::from("center_mod"));
    let mode: u64 = std::env::var("VERIF_CT_MODE").ok().and_then(|s| s.parse().ok()).unwrap_or(0);
    let val: i64 = std::env::var("VERIF_CT_VAL").ok().and_then(|s| s.parse().ok()).unwrap_or(0);
    let (lo, hi) = domain(kernel.as_str());
    let mut g = Gen((val as u64) ^ (mode << 40) ^ 0xABCD);
    let mut bytes = [0u8; 64];
    for b in bytes.iter_mut() { *b = g.next() as u8; }
    let inp = Inputs { a: core::array::from_fn(|k| coeffs(mode, val + 7 * k as i64, lo, hi)), bytes };
    // markers for the memory-trace oracle: a volatile store to MARK immediately before and after the target
    unsafe { core::ptr::write_volatile(core::ptr::addr_of_mut!(MARK), 1); }
    let r = core::hint::black_box(ct_target(core::hint::black_box(kernel.as_str()), core::hint::black_box(&inp)));
    unsafe { core::ptr::write_volatile(core::ptr::addr_of_mut!(MARK), 2); }
    // constant text only: the output path must not depend on the secret (the memory-trace oracle compares whole runs)
    core::hint::black_box(r);
    std::println!("C14-PROBE done mark={:p}", unsafe { core::ptr::addr_of!(MARK) });
}
