// Native replay for C16: drop every key type in place and read the object's bytes back.
extern crate std;
use crate::traits::{KeyGen, SerDes};
use core::mem::MaybeUninit;

fn survivors<X>(x: X) -> usize {
    let mut slot = MaybeUninit::<X>::new(x);
    let n = core::mem::size_of::<X>();
    unsafe {
        core::ptr::drop_in_place(slot.as_mut_ptr());
        let p = slot.as_ptr() as *const u8;
        (0..n).filter(|&i| core::ptr::read_volatile(p.add(i)) != 0).count()
    }
}

#[test]
fn c16_drop_all() {
    let mut bad = 0;
    macro_rules! one { ($set:ident) => {{
        use crate::$set as S;
        let (pk, sk) = S::KG::keygen_from_seed(&[0xC3u8; 32]);
        let sk2 = S::PrivateKey::try_from_bytes(sk.clone().into_bytes()).unwrap();
        let pk2 = S::PublicKey::try_from_bytes(pk.clone().into_bytes()).unwrap();
        for (what, n) in [("generated sk", survivors(sk)), ("generated pk", survivors(pk)), ("deserialised sk", survivors(sk2)), ("deserialised pk", survivors(pk2))] {
            if n != 0 { std::println!("{} {}: {} byte(s) survive drop", stringify!($set), what, n); bad += 1; }
        }
    }}; }
    // solver witness first (filled in when a monolithic Kani harness fails)
    // @WITNESS@
    one!(ml_dsa_44); one!(ml_dsa_65); one!(ml_dsa_87);
    // degenerate contents: keys whose byte fields (rho, K, tr) are constant 0x00 / 0xFF, alone and together; derived public keys
    macro_rules! degenerate { ($set:ident) => {{
        use crate::$set as S;
        use crate::traits::Signer;
        let (pk, sk) = S::KG::keygen_from_seed(&[0x5Au8; 32]);
        let skb = sk.into_bytes(); let pkb = pk.into_bytes();
        for fill in [0x00u8, 0xFFu8] {
            for (lo, hi, name) in [(0usize, 32usize, "rho"), (32, 64, "K"), (64, 128, "tr"), (0, 128, "rho,K,tr")] {
                let mut b = skb; for x in &mut b[lo..hi] { *x = fill; }
                if let Ok(k) = S::PrivateKey::try_from_bytes(b) {
                    let d = k.get_public_key();
                    let n = survivors(d); if n != 0 { std::println!("{} derived pk (sk {} = {:#04x}): {} byte(s) survive drop", stringify!($set), name, fill, n); bad += 1; }
                    let n = survivors(k); if n != 0 { std::println!("{} sk with {} = {:#04x}: {} byte(s) survive drop", stringify!($set), name, fill, n); bad += 1; }
                }
            }
            let mut b = pkb; for x in &mut b[0..32] { *x = fill; }
            if let Ok(k) = S::PublicKey::try_from_bytes(b) {
                let n = survivors(k); if n != 0 { std::println!("{} pk with rho = {:#04x}: {} byte(s) survive drop", stringify!($set), fill, n); bad += 1; }
            }
            let b = { let mut b = pkb; for x in b.iter_mut() { *x = fill; } b };
            if let Ok(k) = S::PublicKey::try_from_bytes(b) {
                let n = survivors(k); if n != 0 { std::println!("{} pk of constant bytes {:#04x}: {} byte(s) survive drop", stringify!($set), fill, n); bad += 1; }
            }
        }
    }}; }
    degenerate!(ml_dsa_44); degenerate!(ml_dsa_65); degenerate!(ml_dsa_87);
    assert!(bad == 0, "VERIF-PROPERTY-VIOLATED C16: {} key object(s) not fully erased on drop", bad);
}
