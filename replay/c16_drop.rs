// Native replay for C16: drop every key type in place and read the object's bytes back.
extern crate std;
use crate::traits::{KeyGen, SerDes};
use core::mem::MaybeUninit;

fn survivors<X>(x: X) -> usize {
    let mut slot = MaybeUninit::<X>::new(x);
    let n = core::mem::size_of::<X>();
    unsafe {
        core::ptr::drop_in_place(slot.as_mut_ptr());
        let p = slot.as_ptr() as *const u8;
        (0..n).filter(|&i| core::ptr::read_volatile(p.add(i)) != 0).count()
    }
}

#[test]
fn c16_drop_all() {
    let mut bad = 0;
    macro_rules! one { ($set:ident) => {{
        use crate::$set as S;
        let (pk, sk) = S::KG::keygen_from_seed(&[0xC3u8; 32]);
        let sk2 = S::PrivateKey::try_from_bytes(sk.clone().into_bytes()).unwrap();
        let pk2 = S::PublicKey::try_from_bytes(pk.clone().into_bytes()).unwrap();
        for (what, n) in [("generated sk", survivors(sk)), ("generated pk", survivors(pk)), ("deserialised sk", survivors(sk2)), ("deserialised pk", survivors(pk2))] {
            if n != 0 { std::println!("{} {}: {} byte(s) survive drop", stringify!($set), what, n); bad += 1; }
        }
    }}; }
    one!(ml_dsa_44); one!(ml_dsa_65); one!(ml_dsa_87);
    assert!(bad == 0, "VERIF-PROPERTY-VIOLATED C16: {} key object(s) not fully erased on drop", bad);
}
