// Spec-literal reference implementation of FIPS 204 (ML-DSA / HashML-DSA), written from the pseudocode of the
// standard with plain modular arithmetic on i64.  Shares no code with the crate under test; used only natively
// (differential replay of counterexamples and mismatch confirmation).  Hashes: the real sha3 / sha2 crates.
#![allow(dead_code, clippy::all)]
extern crate std;
use sha2::Digest;
use sha3::digest::{ExtendableOutput, Update, XofReader};
use std::vec;
use std::vec::Vec;

pub const Q: i64 = 8_380_417;
pub const D: u32 = 13;
pub const ZETA: i64 = 1753;
pub type Poly = [i64; 256];

#[derive(Clone, Copy)]
pub struct Params {
    pub k: usize,
    pub l: usize,
    pub eta: i64,
    pub tau: usize,
    pub lambda: usize,
    pub gamma1: i64,
    pub gamma2: i64,
    pub omega: usize,
}
pub const P44: Params = Params { k: 4, l: 4, eta: 2, tau: 39, lambda: 128, gamma1: 1 << 17, gamma2: (Q - 1) / 88, omega: 80 };
pub const P65: Params = Params { k: 6, l: 5, eta: 4, tau: 49, lambda: 192, gamma1: 1 << 19, gamma2: (Q - 1) / 32, omega: 55 };
pub const P87: Params = Params { k: 8, l: 7, eta: 2, tau: 60, lambda: 256, gamma1: 1 << 19, gamma2: (Q - 1) / 32, omega: 75 };
impl Params {
    pub fn beta(&self) -> i64 { self.tau as i64 * self.eta }
    pub fn pk_len(&self) -> usize { 32 + 32 * self.k * (bitlen(Q - 1) - D as usize) }
    pub fn sk_len(&self) -> usize { 128 + 32 * ((self.l + self.k) * bitlen(2 * self.eta) + D as usize * self.k) }
    pub fn sig_len(&self) -> usize { self.lambda / 4 + self.l * 32 * (1 + bitlen(self.gamma1 - 1)) + self.omega + self.k }
}

pub fn bitlen(x: i64) -> usize { (64 - (x as u64).leading_zeros()) as usize }
fn md(x: i64, m: i64) -> i64 { x.rem_euclid(m) }
fn mod_pm(x: i64, a: i64) -> i64 { let r = x.rem_euclid(a); if 2 * r <= a { r } else { r - a } }

pub fn h(parts: &[&[u8]], n: usize) -> Vec<u8> {
    let mut s = sha3::Shake256::default();
    for p in parts { s.update(p); }
    let mut o = vec![0u8; n];
    s.finalize_xof().read(&mut o);
    o
}

// ---- section 7.1 conversions (bit-level, as written)
fn integer_to_bits(x: i64, a: usize) -> Vec<u8> { let mut y = Vec::new(); let mut xp = x; for _ in 0..a { y.push((xp % 2) as u8); xp /= 2; } y }
fn bits_to_integer(y: &[u8]) -> i64 { let mut x = 0i64; for i in 1..=y.len() { x = 2 * x + y[y.len() - i] as i64; } x }
fn bits_to_bytes(y: &[u8]) -> Vec<u8> { let mut z = vec![0u8; (y.len() + 7) / 8]; for i in 0..y.len() { z[i / 8] += y[i] << (i % 8); } z }
fn bytes_to_bits(z: &[u8]) -> Vec<u8> { let mut y = Vec::new(); for b in z { let mut zp = *b; for _ in 0..8 { y.push(zp % 2); zp /= 2; } } y }

fn coeff_from_three_bytes(b0: u8, b1: u8, b2: u8) -> Option<i64> {
    let mut b2p = b2 as i64; if b2p > 127 { b2p -= 128; }
    let z = 65536 * b2p + 256 * b1 as i64 + b0 as i64;
    if z < Q { Some(z) } else { None }
}
fn coeff_from_half_byte(eta: i64, b: u8) -> Option<i64> {
    if eta == 2 && b < 15 { return Some(2 - (b as i64 % 5)); }
    if eta == 4 && b < 9 { return Some(4 - b as i64); }
    None
}
fn simple_bit_pack(w: &Poly, b: i64) -> Vec<u8> { let mut z = Vec::new(); for i in 0..256 { z.extend(integer_to_bits(w[i], bitlen(b))); } bits_to_bytes(&z) }
fn bit_pack(w: &Poly, a: i64, b: i64) -> Vec<u8> { let mut z = Vec::new(); for i in 0..256 { z.extend(integer_to_bits(b - w[i], bitlen(a + b))); } bits_to_bytes(&z) }
fn simple_bit_unpack(v: &[u8], b: i64) -> Poly { let c = bitlen(b); let z = bytes_to_bits(v); let mut w = [0i64; 256]; for i in 0..256 { w[i] = bits_to_integer(&z[i * c..i * c + c]); } w }
fn bit_unpack(v: &[u8], a: i64, b: i64) -> Poly { let c = bitlen(a + b); let z = bytes_to_bits(v); let mut w = [0i64; 256]; for i in 0..256 { w[i] = b - bits_to_integer(&z[i * c..i * c + c]); } w }
fn hint_bit_pack(p: &Params, hh: &[Poly]) -> Vec<u8> {
    let mut y = vec![0u8; p.omega + p.k]; let mut index = 0;
    for i in 0..p.k { for j in 0..256 { if hh[i][j] != 0 { y[index] = j as u8; index += 1; } } y[p.omega + i] = index as u8; }
    y
}
fn hint_bit_unpack(p: &Params, y: &[u8]) -> Option<Vec<Poly>> {
    let mut hh = vec![[0i64; 256]; p.k]; let mut index = 0usize;
    for i in 0..p.k {
        let yi = y[p.omega + i] as usize;
        if yi < index || yi > p.omega { return None; }
        let first = index;
        while index < yi {
            if index > first && y[index - 1] >= y[index] { return None; }
            hh[i][y[index] as usize] = 1; index += 1;
        }
    }
    for i in index..p.omega { if y[i] != 0 { return None; } }
    Some(hh)
}

// ---- section 7.2 encodings
pub fn pk_encode(p: &Params, rho: &[u8], t1: &[Poly]) -> Vec<u8> { let mut pk = rho.to_vec(); for i in 0..p.k { pk.extend(simple_bit_pack(&t1[i], (1 << (bitlen(Q - 1) - D as usize)) - 1)); } pk }
pub fn pk_decode(p: &Params, pk: &[u8]) -> (Vec<u8>, Vec<Poly>) {
    let w = 32 * (bitlen(Q - 1) - D as usize); let rho = pk[..32].to_vec(); let mut t1 = Vec::new();
    for i in 0..p.k { t1.push(simple_bit_unpack(&pk[32 + i * w..32 + (i + 1) * w], (1 << (bitlen(Q - 1) - D as usize)) - 1)); }
    (rho, t1)
}
pub fn sk_encode(p: &Params, rho: &[u8], kk: &[u8], tr: &[u8], s1: &[Poly], s2: &[Poly], t0: &[Poly]) -> Vec<u8> {
    let mut sk = Vec::new(); sk.extend_from_slice(rho); sk.extend_from_slice(kk); sk.extend_from_slice(tr);
    for i in 0..p.l { sk.extend(bit_pack(&s1[i], p.eta, p.eta)); }
    for i in 0..p.k { sk.extend(bit_pack(&s2[i], p.eta, p.eta)); }
    for i in 0..p.k { sk.extend(bit_pack(&t0[i], (1 << (D - 1)) - 1, 1 << (D - 1))); }
    sk
}
/// (rho, K, tr, s1, s2, t0) or None when an eta field is out of range (the check FIPS 204 leaves to the implementation; C10)
pub fn sk_decode(p: &Params, sk: &[u8]) -> Option<(Vec<u8>, Vec<u8>, Vec<u8>, Vec<Poly>, Vec<Poly>, Vec<Poly>)> {
    let we = 32 * bitlen(2 * p.eta); let wt = 32 * D as usize; let mut off = 128;
    let (mut s1, mut s2, mut t0) = (Vec::new(), Vec::new(), Vec::new());
    for _ in 0..p.l { s1.push(bit_unpack(&sk[off..off + we], p.eta, p.eta)); off += we; }
    for _ in 0..p.k { s2.push(bit_unpack(&sk[off..off + we], p.eta, p.eta)); off += we; }
    for _ in 0..p.k { t0.push(bit_unpack(&sk[off..off + wt], (1 << (D - 1)) - 1, 1 << (D - 1))); off += wt; }
    for v in s1.iter().chain(s2.iter()) { for c in v.iter() { if *c < -p.eta || *c > p.eta { return None; } } }
    Some((sk[..32].to_vec(), sk[32..64].to_vec(), sk[64..128].to_vec(), s1, s2, t0))
}
pub fn sig_encode(p: &Params, c_tilde: &[u8], z: &[Poly], hh: &[Poly]) -> Vec<u8> {
    let mut s = c_tilde.to_vec(); for i in 0..p.l { s.extend(bit_pack(&z[i], p.gamma1 - 1, p.gamma1)); } s.extend(hint_bit_pack(p, hh)); s
}
pub fn sig_decode(p: &Params, sig: &[u8]) -> (Vec<u8>, Vec<Poly>, Option<Vec<Poly>>) {
    let n = p.lambda / 4; let w = 32 * (1 + bitlen(p.gamma1 - 1)); let mut z = Vec::new();
    for i in 0..p.l { z.push(bit_unpack(&sig[n + i * w..n + (i + 1) * w], p.gamma1 - 1, p.gamma1)); }
    (sig[..n].to_vec(), z, hint_bit_unpack(p, &sig[n + p.l * w..]))
}
pub fn w1_encode(p: &Params, w1: &[Poly]) -> Vec<u8> { let mut o = Vec::new(); for i in 0..p.k { o.extend(simple_bit_pack(&w1[i], (Q - 1) / (2 * p.gamma2) - 1)); } o }

// ---- section 7.3 sampling
pub fn sample_in_ball(p: &Params, rho: &[u8]) -> Poly {
    let mut c = [0i64; 256];
    let mut ctx = sha3::Shake256::default(); ctx.update(rho); let mut rd = ctx.finalize_xof();
    let mut s = [0u8; 8]; rd.read(&mut s); let hbits = bytes_to_bits(&s);
    for i in (256 - p.tau)..256 {
        let mut j = [0u8; 1]; rd.read(&mut j);
        while j[0] as usize > i { rd.read(&mut j); }
        c[i] = c[j[0] as usize];
        c[j[0] as usize] = if hbits[i + p.tau - 256] == 1 { -1 } else { 1 };
    }
    c
}
fn rej_ntt_poly(seed: &[u8]) -> Poly {
    let mut a = [0i64; 256]; let mut g = sha3::Shake128::default(); g.update(seed); let mut rd = g.finalize_xof(); let mut j = 0;
    while j < 256 { let mut s = [0u8; 3]; rd.read(&mut s); if let Some(v) = coeff_from_three_bytes(s[0], s[1], s[2]) { a[j] = v; j += 1; } }
    a
}
fn rej_bounded_poly(p: &Params, seed: &[u8]) -> Poly {
    let mut a = [0i64; 256]; let mut hh = sha3::Shake256::default(); hh.update(seed); let mut rd = hh.finalize_xof(); let mut j = 0;
    while j < 256 {
        let mut z = [0u8; 1]; rd.read(&mut z);
        let z0 = coeff_from_half_byte(p.eta, z[0] % 16); let z1 = coeff_from_half_byte(p.eta, z[0] / 16);
        if let Some(v) = z0 { a[j] = v; j += 1; }
        if let Some(v) = z1 { if j < 256 { a[j] = v; j += 1; } }
    }
    a
}
pub fn expand_a(p: &Params, rho: &[u8]) -> Vec<Vec<Poly>> {
    let mut a = Vec::new();
    for r in 0..p.k { let mut row = Vec::new(); for s in 0..p.l { let mut seed = rho.to_vec(); seed.push(s as u8); seed.push(r as u8); row.push(rej_ntt_poly(&seed)); } a.push(row); }
    a
}
pub fn expand_s(p: &Params, rho: &[u8]) -> (Vec<Poly>, Vec<Poly>) {
    let mut s1 = Vec::new(); let mut s2 = Vec::new();
    for r in 0..p.l { let mut seed = rho.to_vec(); seed.extend_from_slice(&(r as u16).to_le_bytes()); s1.push(rej_bounded_poly(p, &seed)); }
    for r in 0..p.k { let mut seed = rho.to_vec(); seed.extend_from_slice(&((r + p.l) as u16).to_le_bytes()); s2.push(rej_bounded_poly(p, &seed)); }
    (s1, s2)
}
pub fn expand_mask(p: &Params, rho: &[u8], mu: usize) -> Vec<Poly> {
    let c = 1 + bitlen(p.gamma1 - 1); let mut y = Vec::new();
    for r in 0..p.l { let n = ((mu + r) as u16).to_le_bytes(); let v = h(&[rho, &n], 32 * c); y.push(bit_unpack(&v, p.gamma1 - 1, p.gamma1)); }
    y
}

// ---- section 7.4
pub fn power2round(r: i64) -> (i64, i64) { let rp = md(r, Q); let r0 = mod_pm(rp, 1 << D); ((rp - r0) / (1 << D), r0) }
pub fn decompose(p: &Params, r: i64) -> (i64, i64) {
    let rp = md(r, Q); let mut r0 = mod_pm(rp, 2 * p.gamma2); let r1;
    if rp - r0 == Q - 1 { r1 = 0; r0 -= 1; } else { r1 = (rp - r0) / (2 * p.gamma2); }
    (r1, r0)
}
pub fn high_bits(p: &Params, r: i64) -> i64 { decompose(p, r).0 }
pub fn low_bits(p: &Params, r: i64) -> i64 { decompose(p, r).1 }
pub fn make_hint(p: &Params, z: i64, r: i64) -> i64 { (high_bits(p, r) != high_bits(p, r + z)) as i64 }
pub fn use_hint(p: &Params, hb: i64, r: i64) -> i64 {
    let m = (Q - 1) / (2 * p.gamma2); let (r1, r0) = decompose(p, r);
    if hb == 1 && r0 > 0 { return md(r1 + 1, m); }
    if hb == 1 && r0 <= 0 { return md(r1 - 1, m); }
    r1
}

// ---- section 7.5 NTT (Algorithms 41, 42, 43) with plain modular arithmetic
fn powmod(mut b: i64, mut e: u64) -> i64 { let mut r = 1i64; b = md(b, Q); while e > 0 { if e & 1 == 1 { r = r * b % Q; } b = b * b % Q; e >>= 1; } r }
fn brv8(m: usize) -> u64 { (m as u8).reverse_bits() as u64 }
pub fn ntt(w: &Poly) -> Poly {
    let mut wh = *w; let mut m = 0; let mut len = 128;
    while len >= 1 {
        let mut start = 0;
        while start < 256 {
            m += 1; let z = powmod(ZETA, brv8(m));
            for j in start..start + len { let t = md(z * wh[j + len], Q); wh[j + len] = md(wh[j] - t, Q); wh[j] = md(wh[j] + t, Q); }
            start += 2 * len;
        }
        len /= 2;
    }
    wh
}
pub fn ntt_inv(wh: &Poly) -> Poly {
    let mut w = *wh; let mut m = 256; let mut len = 1;
    while len < 256 {
        let mut start = 0;
        while start < 256 {
            m -= 1; let z = md(-powmod(ZETA, brv8(m)), Q);
            for j in start..start + len { let t = w[j]; w[j] = md(t + w[j + len], Q); w[j + len] = md(t - w[j + len], Q); w[j + len] = md(z * w[j + len], Q); }
            start += 2 * len;
        }
        len *= 2;
    }
    let f = 8_347_681i64;
    for j in 0..256 { w[j] = md(f * w[j], Q); }
    w
}
fn mul_ntt(a: &Poly, b: &Poly) -> Poly { let mut c = [0i64; 256]; for i in 0..256 { c[i] = md(a[i] * b[i], Q); } c }
fn add(a: &Poly, b: &Poly) -> Poly { let mut c = [0i64; 256]; for i in 0..256 { c[i] = md(a[i] + b[i], Q); } c }
fn sub(a: &Poly, b: &Poly) -> Poly { let mut c = [0i64; 256]; for i in 0..256 { c[i] = md(a[i] - b[i], Q); } c }
fn mat_vec(p: &Params, a: &[Vec<Poly>], v: &[Poly]) -> Vec<Poly> {
    let mut w = Vec::new();
    for i in 0..p.k { let mut acc = [0i64; 256]; for j in 0..p.l { acc = add(&acc, &mul_ntt(&a[i][j], &v[j])); } w.push(acc); }
    w
}
fn inf_norm(v: &[Poly]) -> i64 { let mut m = 0; for pl in v { for c in pl.iter() { let a = mod_pm(*c, Q).abs(); if a > m { m = a; } } } m }

// ---- Algorithms 6, 7, 8
pub fn keygen_internal(p: &Params, xi: &[u8; 32]) -> (Vec<u8>, Vec<u8>) {
    let hh = h(&[xi, &[p.k as u8], &[p.l as u8]], 128);
    let (rho, rhop, kk) = (&hh[..32], &hh[32..96], &hh[96..128]);
    let a = expand_a(p, rho);
    let (s1, s2) = expand_s(p, rhop);
    let s1h: Vec<Poly> = s1.iter().map(ntt).collect();
    let t: Vec<Poly> = mat_vec(p, &a, &s1h).iter().zip(s2.iter()).map(|(x, s)| add(&ntt_inv(x), s)).collect();
    let mut t1 = Vec::new(); let mut t0 = Vec::new();
    for pl in &t { let mut a1 = [0i64; 256]; let mut a0 = [0i64; 256]; for i in 0..256 { let (x, y) = power2round(pl[i]); a1[i] = x; a0[i] = y; } t1.push(a1); t0.push(a0); }
    let pk = pk_encode(p, rho, &t1);
    let tr = h(&[&pk], 64);
    let sk = sk_encode(p, rho, kk, &tr, &s1, &s2, &t0);
    (pk, sk)
}

/// returns (signature, number of loop iterations, what rejected each failed attempt: 1 = first test (z / r0), 2 = second test (ct0 / hint weight))
pub fn sign_internal(p: &Params, sk: &[u8], mp: &[u8], rnd: &[u8; 32]) -> (Vec<u8>, usize, Vec<u8>) {
    let (rho, kk, tr, s1, s2, t0) = sk_decode(p, sk).expect("reference signer needs an in-range key");
    let s1h: Vec<Poly> = s1.iter().map(ntt).collect();
    let s2h: Vec<Poly> = s2.iter().map(ntt).collect();
    let t0h: Vec<Poly> = t0.iter().map(ntt).collect();
    let a = expand_a(p, &rho);
    let mu = h(&[&tr, mp], 64);
    let rhopp = h(&[&kk, rnd, &mu], 64);
    let mut kappa = 0usize; let mut iters = 0; let mut why = Vec::new();
    loop {
        iters += 1;
        let y = expand_mask(p, &rhopp, kappa);
        let yh: Vec<Poly> = y.iter().map(ntt).collect();
        let w: Vec<Poly> = mat_vec(p, &a, &yh).iter().map(ntt_inv).collect();
        let w1: Vec<Poly> = w.iter().map(|pl| { let mut o = [0i64; 256]; for i in 0..256 { o[i] = high_bits(p, pl[i]); } o }).collect();
        let c_tilde = h(&[&mu, &w1_encode(p, &w1)], p.lambda / 4);
        let c = sample_in_ball(p, &c_tilde);
        let ch = ntt(&c);
        let cs1: Vec<Poly> = s1h.iter().map(|s| ntt_inv(&mul_ntt(&ch, s))).collect();
        let cs2: Vec<Poly> = s2h.iter().map(|s| ntt_inv(&mul_ntt(&ch, s))).collect();
        let z: Vec<Poly> = y.iter().zip(cs1.iter()).map(|(a, b)| add(a, b)).collect();
        let r0: Vec<Poly> = w.iter().zip(cs2.iter()).map(|(a, b)| { let d = sub(a, b); let mut o = [0i64; 256]; for i in 0..256 { o[i] = low_bits(p, d[i]); } o }).collect();
        if inf_norm(&z) >= p.gamma1 - p.beta() || inf_norm(&r0) >= p.gamma2 - p.beta() { kappa += p.l; why.push(1); continue; }
        let ct0: Vec<Poly> = t0h.iter().map(|s| ntt_inv(&mul_ntt(&ch, s))).collect();
        let mut hh = Vec::new(); let mut ones = 0;
        for i in 0..p.k {
            let mut o = [0i64; 256];
            for j in 0..256 { o[j] = make_hint(p, md(-ct0[i][j], Q), md(w[i][j] - cs2[i][j] + ct0[i][j], Q)); ones += o[j]; }
            hh.push(o);
        }
        if inf_norm(&ct0) >= p.gamma2 || ones > p.omega as i64 { kappa += p.l; why.push(2); continue; }
        let zc: Vec<Poly> = z.iter().map(|pl| { let mut o = [0i64; 256]; for i in 0..256 { o[i] = mod_pm(pl[i], Q); } o }).collect();
        return (sig_encode(p, &c_tilde, &zc, &hh), iters, why);
    }
}

pub fn verify_internal(p: &Params, pk: &[u8], mp: &[u8], sig: &[u8]) -> bool {
    let (rho, t1) = pk_decode(p, pk);
    let (c_tilde, z, hh) = sig_decode(p, sig);
    let hh = match hh { Some(x) => x, None => return false };
    let a = expand_a(p, &rho);
    let tr = h(&[pk], 64);
    let mu = h(&[&tr, mp], 64);
    let c = sample_in_ball(p, &c_tilde);
    let ch = ntt(&c);
    let zh: Vec<Poly> = z.iter().map(ntt).collect();
    let az = mat_vec(p, &a, &zh);
    let mut w1p = Vec::new();
    for i in 0..p.k {
        let mut t1d = [0i64; 256]; for j in 0..256 { t1d[j] = md(t1[i][j] * (1 << D), Q); }
        let wa = ntt_inv(&sub(&az[i], &mul_ntt(&ch, &ntt(&t1d))));
        let mut o = [0i64; 256]; for j in 0..256 { o[j] = use_hint(p, hh[i][j], wa[j]); } w1p.push(o);
    }
    let c_tilde_p = h(&[&mu, &w1_encode(p, &w1p)], p.lambda / 4);
    inf_norm(&z) < p.gamma1 - p.beta() && c_tilde == c_tilde_p
}

// ---- Algorithms 2-5 (external interface)
pub enum PreHash { Sha256, Sha512, Shake128 }
fn oid_phm(ph: &PreHash, m: &[u8]) -> (Vec<u8>, Vec<u8>) {
    match ph {
        PreHash::Sha256 => (vec![0x06, 0x09, 0x60, 0x86, 0x48, 0x01, 0x65, 0x03, 0x04, 0x02, 0x01], sha2::Sha256::digest(m).to_vec()),
        PreHash::Sha512 => (vec![0x06, 0x09, 0x60, 0x86, 0x48, 0x01, 0x65, 0x03, 0x04, 0x02, 0x03], sha2::Sha512::digest(m).to_vec()),
        PreHash::Shake128 => { let mut s = sha3::Shake128::default(); s.update(m); let mut o = vec![0u8; 32]; s.finalize_xof().read(&mut o); (vec![0x06, 0x09, 0x60, 0x86, 0x48, 0x01, 0x65, 0x03, 0x04, 0x02, 0x0B], o) }
    }
}
pub fn format_pure(ctx: &[u8], m: &[u8]) -> Option<Vec<u8>> { if ctx.len() > 255 { return None; } let mut mp = vec![0u8, ctx.len() as u8]; mp.extend_from_slice(ctx); mp.extend_from_slice(m); Some(mp) }
pub fn format_hash(ctx: &[u8], m: &[u8], ph: &PreHash) -> Option<Vec<u8>> {
    if ctx.len() > 255 { return None; }
    let (oid, phm) = oid_phm(ph, m); let mut mp = vec![1u8, ctx.len() as u8]; mp.extend_from_slice(ctx); mp.extend(oid); mp.extend(phm); Some(mp)
}
pub fn sign(p: &Params, sk: &[u8], m: &[u8], ctx: &[u8], rnd: &[u8; 32]) -> Option<Vec<u8>> { format_pure(ctx, m).map(|mp| sign_internal(p, sk, &mp, rnd).0) }
pub fn hash_sign(p: &Params, sk: &[u8], m: &[u8], ctx: &[u8], ph: &PreHash, rnd: &[u8; 32]) -> Option<Vec<u8>> { format_hash(ctx, m, ph).map(|mp| sign_internal(p, sk, &mp, rnd).0) }
pub fn verify(p: &Params, pk: &[u8], m: &[u8], sig: &[u8], ctx: &[u8]) -> bool { match format_pure(ctx, m) { Some(mp) => verify_internal(p, pk, &mp, sig), None => false } }
pub fn hash_verify(p: &Params, pk: &[u8], m: &[u8], sig: &[u8], ctx: &[u8], ph: &PreHash) -> bool { match format_hash(ctx, m, ph) { Some(mp) => verify_internal(p, pk, &mp, sig), None => false } }
