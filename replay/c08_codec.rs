// Native confirmation for C08: real codecs vs the spec-literal reference on structured inputs
// (every class of hint-section malformation at the real (K, omega) and at reduced sizes; coefficient codecs at the range ends).
extern crate std;
use crate::conversion::*;
use crate::types::R;
#[path = "@VERIF@/kani/spec.rs"]
mod spec;

struct Lcg(u64);
impl Lcg { fn next(&mut self) -> u64 { self.0 = self.0.wrapping_mul(6364136223846793005).wrapping_add(1442695040888963407); self.0 >> 33 } }

fn hint_case<const K: usize>(omega: usize, y: &[u8], bad: &mut u32) {
    let r = hint_bit_unpack::<K>(omega as i32, y);
    let s = spec::hint_bit_unpack::<K>(omega, y);
    match (r, s) {
        (Ok(h), Some(hs)) => {
            for i in 0..K { for j in 0..256 { if h[i].0[j] != hs[i][j] as i32 { std::println!("C08 hint value mismatch K={} y={:?}", K, y); *bad += 1; return; } } }
            let mut y2 = std::vec![0xAAu8; omega + K];
            hint_bit_pack::<false, K>(omega as i32, &h, &mut y2);
            if y2 != y { std::println!("C08 hint re-encode differs K={} y={:?} y2={:?}", K, y, y2); *bad += 1; }
        }
        (Err(_), None) => {}
        (a, b) => { std::println!("C08 hint accept/reject mismatch K={} real_ok={} spec_ok={} y={:?}", K, a.is_ok(), b.is_some(), y); *bad += 1; }
    }
}

fn hint_family<const K: usize>(omega: usize, bad: &mut u32) {
    let mut rng = Lcg(0x5EED + K as u64);
    // hostile maximal sections: strictly increasing position bytes all the way, counts beyond omega (up to 255),
    // so that a decoder that trusts a count walks past the end of the section
    for base in [omega + 1, omega + K + 1, 200, 255 - K] {
        let mut y = std::vec![0u8; omega + K];
        for i in 0..omega { y[i] = i as u8; }
        for i in 0..K { y[omega + i] = core::cmp::min(255, base + i) as u8; }
        let yy = y.clone();
        let r = std::panic::catch_unwind(move || { let mut b = 0u32; hint_case::<K>(omega, &yy, &mut b); b });
        match r { Ok(b) => *bad += b, Err(_) => { std::println!("C08 hint decoder PANICS on counts beyond omega: K={} y[omega..]={:?}", K, &y[omega..]); *bad += 1; } }
    }
    // boundary family: runs of one or two position bytes taken from the boundary values, equal / ascending / descending, in the first,
    // a middle and the last polynomial, alone or after a filler run; a repeated 255, a repeated 0, 254-255, 255-0 are all in here
    {
        let vals: [u8; 8] = [0, 1, 2, 127, 128, 253, 254, 255];
        for poly in [0usize, K / 2, K - 1] {
            for filler in [0usize, 1, 3] {
                for &a in &vals {
                    for &b in &vals {
                        for run in [1usize, 2, 3] {
                            if filler + run > omega { continue; }
                            let mut y = std::vec![0u8; omega + K];
                            // filler hints live in polynomial 0 (or in `poly` itself when poly == 0): strictly increasing small positions
                            let mut pos = 0usize;
                            let mut counts = std::vec![0usize; K];
                            if poly > 0 { for t in 0..filler { y[pos] = (3 + 2 * t) as u8; pos += 1; } for c in counts.iter_mut().take(poly) { *c = pos; } }
                            let seq: std::vec::Vec<u8> = match run { 1 => std::vec![a], 2 => std::vec![a, b], _ => std::vec![a, b, b] };
                            for v in &seq { y[pos] = *v; pos += 1; }
                            for c in counts.iter_mut().skip(poly) { *c = pos; }
                            for i in 0..K { y[omega + i] = counts[i] as u8; }
                            let yy = y.clone();
                            let r = std::panic::catch_unwind(move || { let mut b2 = 0u32; hint_case::<K>(omega, &yy, &mut b2); b2 });
                            match r { Ok(b2) => *bad += b2, Err(_) => { std::println!("C08 hint decoder PANICS on boundary run {:?} in polynomial {}", seq, poly); *bad += 1; } }
                            if *bad > 6 { return; }
                        }
                    }
                }
            }
        }
    }
    // a valid base: counts spread over polynomials, strictly increasing indices inside each
    for round in 0..400 {
        let mut y = std::vec![0u8; omega + K];
        let total = (rng.next() as usize) % (omega + 1);
        let mut cuts: std::vec::Vec<usize> = (0..K).map(|_| (rng.next() as usize) % (total + 1)).collect();
        cuts.sort();
        cuts[K - 1] = total;
        let mut start = 0;
        for i in 0..K {
            let n = cuts[i] - start;
            let mut idx: std::vec::Vec<u8> = std::vec::Vec::new();
            while idx.len() < n { let v = (rng.next() % 256) as u8; if !idx.contains(&v) { idx.push(v); } }
            idx.sort();
            for (t, v) in idx.iter().enumerate() { y[start + t] = *v; }
            y[omega + i] = cuts[i] as u8;
            start = cuts[i];
        }
        hint_case::<K>(omega, &y, bad);
        // mutations of every class
        let mut m = y.clone();
        match round % 8 {
            0 => { if total > 0 { let p = (rng.next() as usize) % total; m[p] = m[p].wrapping_add(1); } }
            1 => { if total > 1 { let p = 1 + (rng.next() as usize) % (total - 1); m[p] = m[p - 1]; } }            // repeated index
            2 => { if total > 1 { let p = 1 + (rng.next() as usize) % (total - 1); m.swap(p, p - 1); } }          // descending
            3 => { let i = (rng.next() as usize) % K; m[omega + i] = m[omega + i].wrapping_add(1); }              // count off by one
            4 => { let i = (rng.next() as usize) % K; m[omega + i] = (omega as u8).wrapping_add(1 + (rng.next() % 3) as u8); } // count > omega
            5 => { if total < omega { let p = total + (rng.next() as usize) % (omega - total); m[p] = 1 + (rng.next() % 255) as u8; } } // non-zero padding
            6 => { if K > 1 { let i = 1 + (rng.next() as usize) % (K - 1); m[omega + i] = m[omega + i - 1].wrapping_sub(1); } } // decreasing count
            _ => { for b in m.iter_mut() { *b = (rng.next() % 256) as u8; } }
        }
        hint_case::<K>(omega, &m, bad);
    }
}

fn bitpack_family(a: i32, b: i32, c: usize, bad: &mut u32) {
    let len = 32 * c;
    let mut rng = Lcg(a as u64 * 31 + b as u64);
    for round in 0..60 {
        let v: std::vec::Vec<u8> = (0..len).map(|i| match round { 0 => 0u8, 1 => 0xFF, 2 => (i as u8), _ => (rng.next() % 256) as u8 }).collect();
        let mut inr = true;
        for i in 0..256 { let f = spec::field(&v, c, i); let x = if a == 0 { f } else { b as i64 - f }; if x < -(a as i64) || x > b as i64 { inr = false; } }
        match bit_unpack(&v, a, b) {
            Ok(w) => {
                if !inr { std::println!("C08 bit_unpack({},{}) accepted an out-of-range field", a, b); *bad += 1; continue; }
                for i in 0..256 { let f = spec::field(&v, c, i); let x = if a == 0 { f } else { b as i64 - f }; if w.0[i] as i64 != x { std::println!("C08 bit_unpack({},{}) value mismatch at {}", a, b, i); *bad += 1; break; } }
                let mut v2 = std::vec![0u8; len];
                bit_pack(&w, a, b, &mut v2);
                if v2 != v { std::println!("C08 bit_pack(bit_unpack(v)) != v for ({},{})", a, b); *bad += 1; }
            }
            Err(_) => { if inr { std::println!("C08 bit_unpack({},{}) rejected an in-range string", a, b); *bad += 1; } }
        }
    }
    // extremal coefficient vectors
    for pat in 0..4 {
        let w = R(core::array::from_fn(|i| match pat { 0 => -a, 1 => b, 2 => if i % 2 == 0 { -a } else { b }, _ => 0 }));
        let mut v = std::vec![0u8; len];
        bit_pack(&w, a, b, &mut v);
        match bit_unpack(&v, a, b) { Ok(w2) => if w2.0 != w.0 { std::println!("C08 roundtrip of an extremal vector differs ({},{})", a, b); *bad += 1; }, Err(_) => { std::println!("C08 extremal vector rejected ({},{})", a, b); *bad += 1; } }
    }
}

#[test]
fn c08_codec_differential() {
    let mut bad = 0u32;
    // solver witnesses (hint sections of the failing Kani window harnesses, K = 2, omega = 8) first
    // @WITNESS@
    hint_family::<2>(8, &mut bad);
    hint_family::<2>(4, &mut bad);
    hint_family::<4>(80, &mut bad);
    hint_family::<6>(55, &mut bad);
    hint_family::<8>(75, &mut bad);
    for (a, b, c) in [(2, 2, 3usize), (4, 4, 4), (0, 1023, 10), (4095, 4096, 13), ((1 << 17) - 1, 1 << 17, 18), ((1 << 19) - 1, 1 << 19, 20), (0, 43, 6), (0, 15, 4)] {
        if (a, b) == (0, 43) || (a, b) == (0, 15) {
            // pack-only ranges (w1): round trip of in-range vectors only
            let w = R(core::array::from_fn(|i| (i as i32 * 7) % (b + 1)));
            let mut v = std::vec![0u8; 32 * c];
            bit_pack(&w, a, b, &mut v);
            for i in 0..256 { if spec::field(&v, c, i) != w.0[i] as i64 { std::println!("C08 simple_bit_pack layout mismatch b={}", b); bad += 1; break; } }
        } else {
            bitpack_family(a, b, c, &mut bad);
        }
    }
    assert!(bad == 0, "VERIF-PROPERTY-VIOLATED C08: {} codec case(s) disagree with FIPS 204", bad);
}
