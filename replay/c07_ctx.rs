// Native replay for C07 (context-length guard, no aliasing) through the public API.
// LENGTHS is generated.  For each length n: signing must fail iff n > 255; a signature forged over the
// *wrapped* length byte (through the public preformatted-message interface) must not verify under the long context.
extern crate std;
use crate::traits::{KeyGen, Signer, Verifier};
use crate::types::Ph;
use rand_core::{CryptoRng, RngCore};
use sha2::{Digest, Sha256};
use std::vec::Vec;

struct FixedRng;
impl RngCore for FixedRng {
    fn next_u32(&mut self) -> u32 { unimplemented!() }
    fn next_u64(&mut self) -> u64 { unimplemented!() }
    fn fill_bytes(&mut self, d: &mut [u8]) { d.fill(7) }
    fn try_fill_bytes(&mut self, d: &mut [u8]) -> Result<(), rand_core::Error> { d.fill(7); Ok(()) }
}
impl CryptoRng for FixedRng {}

macro_rules! ctx_case {
    ($set:ident, $n:expr, $bad:ident) => {{
        use crate::$set as S;
        let n: usize = $n;
        let (pk, sk) = S::KG::keygen_from_seed(&[9u8; 32]);
        let ctx: Vec<u8> = (0..n).map(|i| (i * 7 + 3) as u8).collect();
        let msg = [1u8, 2, 3, 4];
        // signing side
        let rs = sk.try_sign_with_rng(&mut FixedRng, &msg, &ctx);
        let rh = sk.try_hash_sign_with_rng(&mut FixedRng, &msg, &ctx, &Ph::SHA256);
        #[allow(deprecated)]
        let ri = S::_internal_sign(&sk, &msg, &ctx, [0u8; 32]);
        if (n > 255) != rs.is_err() { std::println!("{} n={} try_sign_with_rng is_err={}", stringify!($set), n, rs.is_err()); $bad += 1; }
        if (n > 255) != rh.is_err() { std::println!("{} n={} try_hash_sign_with_rng is_err={}", stringify!($set), n, rh.is_err()); $bad += 1; }
        if (n > 255) != ri.is_err() { std::println!("{} n={} _internal_sign is_err={}", stringify!($set), n, ri.is_err()); $bad += 1; }
        // verification side: forge over the wrapped length byte, M' = dom || (n mod 256) || ctx || ...
        let mut mp: Vec<u8> = Vec::new();
        mp.push(0); mp.push((n % 256) as u8); mp.extend_from_slice(&ctx); mp.extend_from_slice(&msg);
        #[allow(deprecated)]
        let forged = S::_internal_sign(&sk, &mp, &[], [0u8; 32]).unwrap();
        let v = pk.verify(&msg, &forged, &ctx);
        if v != (n <= 255) { std::println!("{} n={} verify(forged over wrapped length)={}", stringify!($set), n, v); $bad += 1; }
        let mut mh: Vec<u8> = Vec::new();
        mh.push(1); mh.push((n % 256) as u8); mh.extend_from_slice(&ctx);
        mh.extend_from_slice(&[0x06, 0x09, 0x60, 0x86, 0x48, 0x01, 0x65, 0x03, 0x04, 0x02, 0x01]);
        mh.extend_from_slice(&Sha256::digest(&msg));
        #[allow(deprecated)]
        let forged_h = S::_internal_sign(&sk, &mh, &[], [0u8; 32]).unwrap();
        let vh = pk.hash_verify(&msg, &forged_h, &ctx, &Ph::SHA256);
        if vh != (n <= 255) { std::println!("{} n={} hash_verify(forged over wrapped length)={}", stringify!($set), n, vh); $bad += 1; }
        #[allow(deprecated)]
        let vi = S::_internal_verify(&pk, &msg, &forged, &ctx);
        if n > 255 && vi { std::println!("{} n={} _internal_verify accepted a long context", stringify!($set), n); $bad += 1; }
    }};
}

#[test]
fn c07_ctx_lengths() {
    let mut bad = 0;
    for &n in LENGTHS {
        ctx_case!(ml_dsa_44, n, bad);
        ctx_case!(ml_dsa_65, n, bad);
        ctx_case!(ml_dsa_87, n, bad);
    }
    assert!(bad == 0, "VERIF-PROPERTY-VIOLATED C07: {} context-length case(s) behave wrongly", bad);
}
