//! C08 — signature and polynomial encodings are canonical (E1 part).
use super::common::*;
use super::spec;
use crate::conversion::*;
use crate::types::{R, R0};

fn to_spec_h<const K: usize>(h: &[R; K]) -> [[u8; 256]; K] {
    let mut o = [[0u8; 256]; K];
    let mut i = 0;
    while i < K {
        let mut j = 0;
        while j < 256 {
            o[i][j] = h[i].0[j] as u8;
            j += 1;
        }
        i += 1;
    }
    o
}

/// HintBitUnpack, reduced size K=2, omega=8, windowed: both count bytes and the 4 index bytes at offset W0 symbolic,
/// strictly increasing concrete background elsewhere.  Real decoder == Algorithm 21 (accept/reject and h at a symbolic
/// position); on accept the real encoder reproduces the bytes (canonicity).
macro_rules! hint_windowed {
    ($name:ident, $w0:expr) => {
        #[kani::proof]
        #[kani::unwind(258)]
        #[kani::stub(zeroize::optimization_barrier, barrier_stub)]
        #[kani::stub(<crate::types::R as core::ops::Drop>::drop, r_drop_stub)]
        fn $name() {
            const K: usize = 2;
            const OMEGA: usize = 8;
            const W0: usize = $w0;
            let mut y = [0u8; OMEGA + K];
            let mut i = 0;
            while i < OMEGA {
                y[i] = (10 + i * 20) as u8;
                i += 1;
            }
            y[W0] = kani::any();
            y[W0 + 1] = kani::any();
            y[W0 + 2] = kani::any();
            y[W0 + 3] = kani::any();
            y[OMEGA] = kani::any();
            y[OMEGA + 1] = kani::any();
            let r = hint_bit_unpack::<K>(OMEGA as i32, &y);
            let s = spec::hint_bit_unpack::<K>(OMEGA, &y);
            match (r, s) {
                (Ok(h), Some(hs)) => {
                    let p: usize = kani::any();
                    kani::assume(p < 256);
                    kani::assert(h[0].0[p] == hs[0][p] as i32 && h[1].0[p] == hs[1][p] as i32, "C08/C02/C05: decoded hint differs from Algorithm 21");
                    kani::cover!(h[1].0[p] == 1);
                    kani::cover!(y[OMEGA] == 0 && y[OMEGA + 1] == OMEGA as u8);
                    core::mem::forget(h);
                }
                (Err(_), None) => {
                    kani::cover!(y[OMEGA] <= y[OMEGA + 1] && y[OMEGA + 1] <= OMEGA as u8);
                }
                (Ok(h), None) => {
                    kani::assert(false, "C08/C02/C05: malformed hint section accepted (Algorithm 21 returns bottom)");
                    core::mem::forget(h);
                }
                (Err(_), Some(_)) => {
                    kani::assert(false, "C08/C02/C01: well-formed hint section rejected");
                }
            }
        }
    };
}
/// HintBitUnpack at K = 3 (a *middle* polynomial exists), omega = 6: all three count bytes and two adjacent position bytes symbolic.
/// Count patterns that need three polynomials (a dip at an empty middle polynomial, counts that overtake each other) are only
/// expressible here; same obligations as the K = 2 windows.
#[kani::proof]
#[kani::unwind(258)]
#[kani::stub(zeroize::optimization_barrier, barrier_stub)]
#[kani::stub(<crate::types::R as core::ops::Drop>::drop, r_drop_stub)]
fn c08_hint_k3_counts() {
    const K: usize = 3;
    const OMEGA: usize = 6;
    let mut y = [0u8; OMEGA + K];
    let mut i = 0;
    while i < OMEGA {
        y[i] = (10 + i * 20) as u8;
        i += 1;
    }
    y[2] = kani::any();
    y[3] = kani::any();
    y[OMEGA] = kani::any();
    y[OMEGA + 1] = kani::any();
    y[OMEGA + 2] = kani::any();
    let r = hint_bit_unpack::<K>(OMEGA as i32, &y);
    let s = spec::hint_bit_unpack::<K>(OMEGA, &y);
    match (r, s) {
        (Ok(h), Some(hs)) => {
            let p: usize = kani::any();
            kani::assume(p < 256);
            kani::assert(h[0].0[p] == hs[0][p] as i32 && h[1].0[p] == hs[1][p] as i32 && h[2].0[p] == hs[2][p] as i32, "C08/C02/C05: decoded hint differs from Algorithm 21");
            kani::cover!(h[2].0[p] == 1);
            kani::cover!(y[OMEGA] == y[OMEGA + 1] && y[OMEGA] > 0);
            core::mem::forget(h);
        }
        (Err(_), None) => {
            kani::cover!(y[OMEGA + 1] < y[OMEGA] && y[OMEGA] <= y[OMEGA + 2] && y[OMEGA + 2] <= OMEGA as u8);
        }
        (Ok(h), None) => {
            kani::assert(false, "C08/C02/C05: malformed hint section accepted (Algorithm 21 returns bottom)");
            core::mem::forget(h);
        }
        (Err(_), Some(_)) => {
            kani::assert(false, "C08/C02/C01: well-formed hint section rejected");
        }
    }
}

hint_windowed!(c08_hint_window_0, 0);
hint_windowed!(c08_hint_window_2, 2);
hint_windowed!(c08_hint_window_4, 4);

/// canonicity through the real encoder: pack(unpack(y)) == y for accepted y (same windowed inputs, offset 2)
#[kani::proof]
#[kani::unwind(258)]
#[kani::stub(zeroize::optimization_barrier, barrier_stub)]
#[kani::stub(<crate::types::R as core::ops::Drop>::drop, r_drop_stub)]
fn c08_hint_repack() {
    const K: usize = 2;
    const OMEGA: usize = 8;
    let mut y = [0u8; OMEGA + K];
    let mut i = 0;
    while i < OMEGA {
        y[i] = (10 + i * 20) as u8;
        i += 1;
    }
    y[2] = kani::any();
    y[3] = kani::any();
    y[6] = kani::any();
    y[7] = kani::any();
    y[OMEGA] = kani::any();
    y[OMEGA + 1] = kani::any();
    if let Ok(h) = hint_bit_unpack::<K>(OMEGA as i32, &y) {
        let mut y2 = [0xAAu8; OMEGA + K];
        hint_bit_pack::<false, K>(OMEGA as i32, &h, &mut y2);
        let j: usize = kani::any();
        kani::assume(j < OMEGA + K);
        kani::assert(y2[j] == y[j], "C08: re-encoding an accepted hint section does not reproduce the bytes");
        kani::cover!(y[OMEGA + 1] == 8);
        core::mem::forget(h);
    }
}

/// exhaustive reduced decoder: every byte string, K=2, omega=4 (thorough tier)
#[kani::proof]
#[kani::unwind(258)]
#[kani::stub(zeroize::optimization_barrier, barrier_stub)]
#[kani::stub(<crate::types::R as core::ops::Drop>::drop, r_drop_stub)]
fn c08_hint_exhaustive_k2_w4() {
    const K: usize = 2;
    const OMEGA: usize = 4;
    let y: [u8; OMEGA + K] = kani::any();
    let r = hint_bit_unpack::<K>(OMEGA as i32, &y);
    let s = spec::hint_bit_unpack::<K>(OMEGA, &y);
    match (r, s) {
        (Ok(h), Some(hs)) => {
            let p: usize = kani::any();
            kani::assume(p < 256);
            kani::assert(h[0].0[p] == hs[0][p] as i32 && h[1].0[p] == hs[1][p] as i32, "C08/C02/C05: decoded hint differs from Algorithm 21");
            kani::cover!(h[0].0[p] == 1);
            core::mem::forget(h);
        }
        (Err(_), None) => {
            kani::cover!(true);
        }
        (Ok(h), None) => {
            kani::assert(false, "C08/C02/C05: malformed hint section accepted (Algorithm 21 returns bottom)");
            core::mem::forget(h);
        }
        (Err(_), Some(_)) => {
            kani::assert(false, "C08/C02/C01: well-formed hint section rejected");
        }
    }
}

/// BitUnpack / BitPack for the (a, b) pairs the crate uses with a + b + 1 a power of two (bijection on all byte strings):
/// decode equals the FIPS bit formula at a symbolic index, decoding never fails, and re-encoding reproduces the bytes.
macro_rules! bitpack_bijection {
    ($name:ident, $a:expr, $b:expr, $c:expr, $len:expr) => {
        #[kani::proof]
        #[kani::unwind(700)]
        #[kani::stub(zeroize::optimization_barrier, barrier_stub)]
        #[kani::stub(<crate::types::R as core::ops::Drop>::drop, r_drop_stub)]
        fn $name() {
            let v: [u8; $len] = kani::any();
            let i: usize = kani::any();
            kani::assume(i < 256);
            match bit_unpack(&v, $a, $b) {
                Ok(w) => {
                    let f = spec::field(&v, $c, i);
                    let want = if $a == 0 { f } else { ($b as i64) - f };
                    kani::assert(w.0[i] as i64 == want, "C08: BitUnpack differs from the FIPS bit formula");
                    let mut v2 = [0u8; $len];
                    bit_pack(&w, $a, $b, &mut v2);
                    let j: usize = kani::any();
                    kani::assume(j < $len);
                    kani::assert(v2[j] == v[j], "C08: BitPack(BitUnpack(v)) != v");
                    kani::cover!(w.0[i] == $b);
                    kani::cover!(w.0[i] == -($a));
                    core::mem::forget(w);
                }
                Err(_) => {
                    kani::assert(false, "C08: BitUnpack rejected a byte string although a + b + 1 is a power of two");
                }
            }
        }
    };
}
bitpack_bijection!(c08_bitpack_t1, 0, 1023, 10, 320);
bitpack_bijection!(c08_bitpack_t0, 4095, 4096, 13, 416);
bitpack_bijection!(c08_bitpack_z17, (1 << 17) - 1, 1 << 17, 18, 576);
bitpack_bijection!(c08_bitpack_z19, (1 << 19) - 1, 1 << 19, 20, 640);

/// BitPack then BitUnpack is the identity on in-range coefficient vectors (two adjacent symbolic coefficients,
/// so carries between neighbours are covered); eta pairs and the pack-only w1 ranges
macro_rules! pack_unpack {
    ($name:ident, $a:expr, $b:expr, $len:expr) => {
        #[kani::proof]
        #[kani::unwind(700)]
        #[kani::stub(zeroize::optimization_barrier, barrier_stub)]
        #[kani::stub(<crate::types::R as core::ops::Drop>::drop, r_drop_stub)]
        fn $name() {
            let p: usize = kani::any();
            kani::assume(p < 255);
            let x0: i32 = kani::any();
            let x1: i32 = kani::any();
            kani::assume(x0 >= -($a) && x0 <= $b && x1 >= -($a) && x1 <= $b);
            let mut w = R([0i32; 256]);
            w.0[p] = x0;
            w.0[p + 1] = x1;
            let mut v = [0u8; $len];
            bit_pack(&w, $a, $b, &mut v);
            match bit_unpack(&v, $a, $b) {
                Ok(w2) => {
                    kani::assert(w2.0[p] == x0 && w2.0[p + 1] == x1, "C08/C09: BitUnpack(BitPack(w)) != w");
                    let q: usize = kani::any();
                    kani::assume(q < 256 && q != p && q != p + 1);
                    kani::assert(w2.0[q] == 0, "C08/C09: BitPack leaks bits into a neighbouring coefficient");
                    kani::cover!(x0 == -($a) && x1 == $b);
                    core::mem::forget(w2);
                }
                Err(_) => kani::assert(false, "C08/C09: BitUnpack rejected the encoding of an in-range vector"),
            }
            core::mem::forget(w);
        }
    };
}
pack_unpack!(c08_roundtrip_t0, 4095, 4096, 416);
pack_unpack!(c08_roundtrip_eta2, 2, 2, 96);
pack_unpack!(c08_roundtrip_eta4, 4, 4, 128);
pack_unpack!(c08_roundtrip_w1_44, 0, 43, 192);
pack_unpack!(c08_roundtrip_w1_65, 0, 15, 128);
