//! C01 — hint duality (Link A): the real MakeHint / UseHint / HighBits / LowBits with exactly the argument shapes of
//! sign_internal and verify_internal, for every coefficient value and every (gamma2, beta).
use super::spec;
use crate::helpers::{center_mod, full_reduce32, partial_reduce32};
use crate::high_low::{high_bits, low_bits, make_hint, use_hint};
use crate::Q;

fn any_set() -> (i32, i32) {
    let s: u8 = kani::any();
    kani::assume(s < 3);
    match s {
        0 => ((Q - 1) / 88, 78),
        1 => ((Q - 1) / 32, 196),
        _ => ((Q - 1) / 32, 120),
    }
}

/// A1: if the signer's first test passes (|LowBits(w - cs2)| < gamma2 - beta) then HighBits(w - cs2) = HighBits(w)
/// for every w in [0,q) and every cs2 with |cs2 mod+- q| <= beta (shapes of ml_dsa.rs: r0 closure / w1 closure)
#[kani::proof]
fn c01_a1_highbits_stable() {
    let (g2, beta) = any_set();
    let w: i32 = kani::any();
    let cs2: i32 = kani::any();
    kani::assume(w >= 0 && w < Q && cs2 >= 0 && cs2 < Q);
    kani::assume(spec::mod_pm(cs2 as i64, spec::Q).abs() <= beta as i64);
    let r = partial_reduce32(w - cs2);
    let r0 = low_bits(g2, r);
    if center_mod(r0).abs() < g2 - beta {
        kani::assert(high_bits(g2, r) == high_bits(g2, w), "C01: HighBits(w - cs2) != HighBits(w) although ||r0|| < gamma2 - beta");
        kani::cover!(center_mod(r0).abs() == g2 - beta - 1);
    }
}

/// A2: UseHint(MakeHint(-ct0, w - cs2 + ct0), w - cs2 + ct0) = HighBits(w - cs2) whenever ||ct0|| < gamma2,
/// with the signer's call shape make_hint(gamma2, Q - ct0, partial_reduce32(x + ct0)) and the verifier's canonical
/// representative full_reduce32(x + ct0) (what inv_ntt returns)
#[kani::proof]
fn c01_a2_hint_duality() {
    let (g2, _beta) = any_set();
    let x: i32 = kani::any(); // w - cs2, unreduced
    let ct0: i32 = kani::any();
    kani::assume(x > -Q && x < Q && ct0 >= 0 && ct0 < Q);
    kani::assume(spec::mod_pm(ct0 as i64, spec::Q).abs() < g2 as i64);
    let rp = partial_reduce32(x + ct0);
    let h = make_hint(g2, Q - ct0, rp);
    // the hint bit is the FIPS one
    kani::assert(h == spec::make_hint(g2 as i64, -(ct0 as i64), x as i64 + ct0 as i64), "C01: hint bit differs from MakeHint(-ct0, w - cs2 + ct0)");
    let u = use_hint(g2, h as i32, full_reduce32(rp));
    kani::assert(u == high_bits(g2, partial_reduce32(x)), "C01: UseHint(MakeHint(..)) != HighBits(w - cs2)");
    kani::cover!(h);
    kani::cover!(spec::mod_pm(ct0 as i64, spec::Q).abs() == g2 as i64 - 1 && h);
}

/// negative control for A2: without the side condition ||ct0|| < gamma2 the duality must be falsifiable
#[kani::proof]
fn c01_a2_negative_control() {
    let (g2, _beta) = any_set();
    let x: i32 = kani::any();
    let ct0: i32 = kani::any();
    kani::assume(x > -Q && x < Q && ct0 >= 0 && ct0 < Q);
    kani::assume(spec::mod_pm(ct0 as i64, spec::Q).abs() <= g2 as i64 + 1);
    let rp = partial_reduce32(x + ct0);
    let h = make_hint(g2, Q - ct0, rp);
    let u = use_hint(g2, h as i32, full_reduce32(rp));
    kani::cover!(u != high_bits(g2, partial_reduce32(x)));
}

/// UseHint always moves the high bits when the hint bit changes (C05 mechanism) and stays in range (w1Encode domain)
#[kani::proof]
fn c01_use_hint_flips() {
    let (g2, _beta) = any_set();
    let r: i32 = kani::any();
    kani::assume(r >= 0 && r < Q);
    let u0 = use_hint(g2, 0, r);
    let u1 = use_hint(g2, 1, r);
    let m = (Q - 1) / (2 * g2);
    kani::assert(u0 != u1, "C05: UseHint(1, r) == UseHint(0, r)");
    kani::assert(u0 >= 0 && u0 < m && u1 >= 0 && u1 < m, "C01: UseHint output outside [0, (q-1)/(2 gamma2))");
}
