//! Spec-literal reference functions transcribed from the FIPS 204 text
//! (mathematical integers emulated in i64; no code shared with the crate).
pub const Q: i64 = 8_380_417;
pub const D: u32 = 13;

/// m mod alpha in [0, alpha)
pub fn md(m: i64, alpha: i64) -> i64 { m.rem_euclid(alpha) }

/// m mod+- alpha: the unique m' with -alpha/2 < m' <= alpha/2 (FIPS 204 section 2.3)
pub fn mod_pm(m: i64, alpha: i64) -> i64 {
    let r = m.rem_euclid(alpha);
    // r <= alpha/2 in the rationals  <=>  2r <= alpha
    if 2 * r <= alpha { r } else { r - alpha }
}

/// Algorithm 35
pub fn power2round(r: i64) -> (i64, i64) {
    let rp = md(r, Q);
    let r0 = mod_pm(rp, 1 << D);
    ((rp - r0) / (1 << D), r0)
}

/// Algorithm 36
pub fn decompose(gamma2: i64, r: i64) -> (i64, i64) {
    let rp = md(r, Q);
    let mut r0 = mod_pm(rp, 2 * gamma2);
    let r1;
    if rp - r0 == Q - 1 {
        r1 = 0;
        r0 -= 1;
    } else {
        r1 = (rp - r0) / (2 * gamma2);
    }
    (r1, r0)
}
pub fn high_bits(gamma2: i64, r: i64) -> i64 { decompose(gamma2, r).0 }
pub fn low_bits(gamma2: i64, r: i64) -> i64 { decompose(gamma2, r).1 }

/// Algorithm 39
pub fn make_hint(gamma2: i64, z: i64, r: i64) -> bool {
    let r1 = high_bits(gamma2, r);
    let v1 = high_bits(gamma2, r + z);
    r1 != v1
}

/// Algorithm 40
pub fn use_hint(gamma2: i64, h: i64, r: i64) -> i64 {
    let m = (Q - 1) / (2 * gamma2);
    let (r1, r0) = decompose(gamma2, r);
    if h == 1 && r0 > 0 {
        return md(r1 + 1, m);
    }
    if h == 1 && r0 <= 0 {
        return md(r1 - 1, m);
    }
    r1
}

/// Algorithm 14
pub fn coeff_from_three_bytes(b0: u8, b1: u8, b2: u8) -> Option<i64> {
    let mut b2p = b2 as i64;
    if b2p > 127 {
        b2p -= 128;
    }
    let z = 65536 * b2p + 256 * (b1 as i64) + (b0 as i64);
    if z < Q { Some(z) } else { None }
}

/// Algorithm 15
pub fn coeff_from_half_byte(eta: i64, b: u8) -> Option<i64> {
    let b = b as i64;
    if eta == 2 && b < 15 {
        return Some(2 - (b % 5));
    }
    if eta == 4 && b < 9 {
        return Some(4 - b);
    }
    None
}

/// bit `i` of the little-endian bit string BytesToBits(v) (Algorithm 13)
pub fn bit_of(v: &[u8], i: usize) -> i64 { ((v[i / 8] >> (i % 8)) & 1) as i64 }

/// BitsToInteger of the c-bit field number `idx` (Algorithms 10, 18/19 line 4)
pub fn field(v: &[u8], c: usize, idx: usize) -> i64 {
    let mut x: i64 = 0;
    let mut j = 0;
    while j < c {
        x |= bit_of(v, idx * c + j) << j;
        j += 1;
    }
    x
}

/// Algorithm 21 on plain arrays; None = "bottom"
pub fn hint_bit_unpack<const K: usize>(omega: usize, y: &[u8]) -> Option<[[u8; 256]; K]> {
    let mut h = [[0u8; 256]; K];
    let mut index: usize = 0;
    let mut i = 0;
    while i < K {
        let yi = y[omega + i] as usize;
        if yi < index || yi > omega {
            return None;
        }
        let first = index;
        while index < yi {
            if index > first {
                if y[index - 1] >= y[index] {
                    return None;
                }
            }
            h[i][y[index] as usize] = 1;
            index += 1;
        }
        i += 1;
    }
    let mut j = index;
    while j < omega {
        if y[j] != 0 {
            return None;
        }
        j += 1;
    }
    Some(h)
}

/// Algorithm 20 on plain arrays
pub fn hint_bit_pack<const K: usize>(omega: usize, h: &[[u8; 256]; K], y: &mut [u8]) {
    let mut t = 0;
    while t < omega + K {
        y[t] = 0;
        t += 1;
    }
    let mut index = 0usize;
    let mut i = 0;
    while i < K {
        let mut j = 0;
        while j < 256 {
            if h[i][j] != 0 {
                y[index] = j as u8;
                index += 1;
            }
            j += 1;
        }
        y[omega + i] = index as u8;
        i += 1;
    }
}
