//! Public entry points of each parameter-set module with the internal functions stubbed to recorders:
//! context-length guard (C07), RNG discipline (C12), argument wiring of sign / verify / keygen wrappers
//! (C02, C03, C04, C06).  The real `hash_message` runs (over the sha2/sha3 oracle models).
use super::common::*;
use crate::traits::{KeyGen, SerDes, Signer, Verifier};
use crate::types::{Ph, PrivateKey, PublicKey, R, T, T0};
use crate::Q;

// ---------------------------------------------------------------- recorders
pub(crate) static mut SIGN_CALLS: u32 = 0;
pub(crate) static mut VERIFY_CALLS: u32 = 0;
pub(crate) static mut KEYGEN_CALLS: u32 = 0;
pub(crate) static mut REC_CTX_PTR: usize = 0;
pub(crate) static mut REC_CTX_LEN: usize = 0;
pub(crate) static mut REC_MSG_PTR: usize = 0;
pub(crate) static mut REC_MSG_LEN: usize = 0;
pub(crate) static mut REC_SIG_PTR: usize = 0;
pub(crate) static mut REC_KEY_PTR: usize = 0;
pub(crate) static mut REC_OID: [u8; 16] = [0; 16];
pub(crate) static mut REC_OID_LEN: usize = 0;
pub(crate) static mut REC_PHM: [u8; 64] = [0; 64];
pub(crate) static mut REC_PHM_LEN: usize = 0;
pub(crate) static mut REC_RND: [u8; 32] = [0; 32];
pub(crate) static mut REC_XI: [u8; 32] = [0; 32];
pub(crate) static mut REC_NIST: bool = false;
pub(crate) static mut REC_CTEST: bool = false;
pub(crate) static mut REC_PARAMS: [i32; 5] = [0; 5];
pub(crate) static mut REC_ETA: i32 = 0;
pub(crate) static mut REC_DIMS: [usize; 6] = [0; 6];
pub(crate) static mut VERIFY_ANSWER: bool = false;

unsafe fn record_common(ctx: &[u8], msg: &[u8], oid: &[u8], phm: &[u8], nist: bool, p: [i32; 5]) {
    REC_CTX_PTR = ctx.as_ptr() as usize;
    REC_CTX_LEN = ctx.len();
    REC_MSG_PTR = msg.as_ptr() as usize;
    REC_MSG_LEN = msg.len();
    REC_OID_LEN = oid.len();
    let mut i = 0;
    while i < oid.len() && i < 16 {
        REC_OID[i] = oid[i];
        i += 1;
    }
    REC_PHM_LEN = phm.len();
    let mut j = 0;
    while j < phm.len() && j < 64 {
        REC_PHM[j] = phm[j];
        j += 1;
    }
    REC_NIST = nist;
    REC_PARAMS = p;
}

pub(crate) fn sign_internal_rec<
    const CTEST: bool,
    const K: usize,
    const L: usize,
    const LAMBDA_DIV4: usize,
    const SIG_LEN: usize,
    const SK_LEN: usize,
    const W1_LEN: usize,
>(
    beta: i32, gamma1: i32, gamma2: i32, omega: i32, tau: i32, esk: &PrivateKey<K, L>, message: &[u8],
    ctx: &[u8], oid: &[u8], phm: &[u8], rnd: [u8; 32], nist: bool,
) -> [u8; SIG_LEN] {
    unsafe {
        SIGN_CALLS += 1;
        record_common(ctx, message, oid, phm, nist, [beta, gamma1, gamma2, omega, tau]);
        REC_RND = rnd;
        REC_KEY_PTR = esk as *const PrivateKey<K, L> as usize;
        REC_CTEST = CTEST;
        REC_DIMS = [K, L, LAMBDA_DIV4, SIG_LEN, SK_LEN, W1_LEN];
    }
    [0x5Au8; SIG_LEN]
}

pub(crate) fn verify_internal_rec<
    const CTEST: bool,
    const K: usize,
    const L: usize,
    const LAMBDA_DIV4: usize,
    const PK_LEN: usize,
    const SIG_LEN: usize,
    const W1_LEN: usize,
>(
    beta: i32, gamma1: i32, gamma2: i32, omega: i32, tau: i32, epk: &PublicKey<K, L>, m: &[u8],
    sig: &[u8; SIG_LEN], ctx: &[u8], oid: &[u8], phm: &[u8], nist: bool,
) -> bool {
    unsafe {
        VERIFY_CALLS += 1;
        record_common(ctx, m, oid, phm, nist, [beta, gamma1, gamma2, omega, tau]);
        REC_SIG_PTR = sig as *const [u8; SIG_LEN] as usize;
        REC_KEY_PTR = epk as *const PublicKey<K, L> as usize;
        REC_CTEST = CTEST;
        REC_DIMS = [K, L, LAMBDA_DIV4, PK_LEN, SIG_LEN, W1_LEN];
        VERIFY_ANSWER
    }
}

pub(crate) fn key_gen_internal_rec<const CTEST: bool, const K: usize, const L: usize, const PK_LEN: usize, const SK_LEN: usize>(
    eta: i32, xi: &[u8; 32],
) -> (PublicKey<K, L>, PrivateKey<K, L>) {
    unsafe {
        KEYGEN_CALLS += 1;
        REC_XI = *xi;
        REC_ETA = eta;
        REC_CTEST = CTEST;
        REC_DIMS = [K, L, PK_LEN, SK_LEN, 0, 0];
    }
    (
        PublicKey { rho: [1; 32], tr: [2; 64], t1_d2_hat_mont: core::array::from_fn(|_| T0) },
        PrivateKey {
            rho: [1; 32],
            cap_k: [3; 32],
            tr: [2; 64],
            s_1_hat_mont: core::array::from_fn(|_| T0),
            s_2_hat_mont: core::array::from_fn(|_| T0),
            t_0_hat_mont: core::array::from_fn(|_| T0),
        },
    )
}

const OID_SHA256: [u8; 11] = [0x06, 0x09, 0x60, 0x86, 0x48, 0x01, 0x65, 0x03, 0x04, 0x02, 0x01];
const OID_SHA512: [u8; 11] = [0x06, 0x09, 0x60, 0x86, 0x48, 0x01, 0x65, 0x03, 0x04, 0x02, 0x03];
const OID_SHAKE128: [u8; 11] = [0x06, 0x09, 0x60, 0x86, 0x48, 0x01, 0x65, 0x03, 0x04, 0x02, 0x0B];

fn any_ph() -> (Ph, u8) {
    let s: u8 = kani::any();
    kani::assume(s < 3);
    (
        match s {
            0 => Ph::SHA256,
            1 => Ph::SHA512,
            _ => Ph::SHAKE128,
        },
        s,
    )
}

/// the pre-hash part of M' recorded by a stub equals what FIPS 204 Alg. 4/5 prescribe for `ph`
unsafe fn prehash_is_spec(sel: u8, msg_len: usize) -> bool {
    let mut ok = REC_OID_LEN == 11;
    let want = match sel {
        0 => OID_SHA256,
        1 => OID_SHA512,
        _ => OID_SHAKE128,
    };
    let mut i = 0;
    while i < 11 {
        ok &= REC_OID[i] == want[i];
        i += 1;
    }
    match sel {
        0 => {
            ok &= REC_PHM_LEN == 32 && sha2::model::CALLS256 == 1 && sha2::model::LAST_LEN == msg_len;
            let mut j = 0;
            while j < 32 {
                ok &= REC_PHM[j] == sha2::model::OUT256[j];
                j += 1;
            }
        }
        1 => {
            ok &= REC_PHM_LEN == 64 && sha2::model::CALLS512 == 1 && sha2::model::LAST_LEN == msg_len;
            let mut j = 0;
            while j < 64 {
                ok &= REC_PHM[j] == sha2::model::OUT512[j];
                j += 1;
            }
        }
        _ => {
            // SHAKE128(M, 256 bits): one Shake128 call absorbing exactly M, 32 bytes squeezed
            ok &= REC_PHM_LEN == 32 && sha3::model::NCALLS == 1 && sha3::model::KIND[0] == 128;
            ok &= sha3::model::LOG_LEN[0] == msg_len && sha3::model::READ[0] == 32;
            let mut j = 0;
            while j < 32 {
                ok &= REC_PHM[j] == sha3::model::TAPE[0][j];
                j += 1;
            }
        }
    }
    ok
}

unsafe fn msg_prefix_is(msg: &[u8]) -> bool {
    // the hash models keep the first bytes they absorbed: they must be the message itself
    let mut ok = true;
    let mut i = 0;
    while i < msg.len() && i < 8 {
        ok &= sha2::model::LAST_PREFIX[i] == msg[i];
        i += 1;
    }
    ok
}

macro_rules! wrapper_harnesses {
    ($modname:ident, $set:ident, $k:expr, $l:expr, $beta:expr, $g1:expr, $g2:expr, $omega:expr, $tau:expr, $eta:expr,
     $ld4:expr, $pk:expr, $sk:expr, $sig:expr, $w1:expr) => {
        mod $modname {
            use super::*;
            use crate::$set as S;

            fn sk() -> S::PrivateKey {
                PrivateKey {
                    rho: [0; 32],
                    cap_k: [0; 32],
                    tr: [0; 64],
                    s_1_hat_mont: core::array::from_fn(|_| T0),
                    s_2_hat_mont: core::array::from_fn(|_| T0),
                    t_0_hat_mont: core::array::from_fn(|_| T0),
                }
            }
            fn pk() -> S::PublicKey { PublicKey { rho: [0; 32], tr: [0; 64], t1_d2_hat_mont: core::array::from_fn(|_| T0) } }
            const PARAMS: [i32; 5] = [$beta, $g1, $g2, $omega, $tau];

            /// pure-mode signing wrapper: ctx guard, one 32-byte draw through the fallible interface, wiring
            #[kani::proof]
            #[kani::unwind(66)]
            #[kani::stub(zeroize::optimization_barrier, barrier_stub)]
            #[kani::stub(crate::ml_dsa::sign_internal, sign_internal_rec)]
            fn sign() {
                let key = sk();
                let buf = [0u8; 1024];
                let n: usize = kani::any();
                kani::assume(n <= 1024);
                let ctx = &buf[..n];
                let mut rng = ModelRng::any();
                let msg: [u8; 3] = kani::any();
                let r = key.try_sign_with_rng(&mut rng, &msg, ctx);
                unsafe {
                    if n > 255 {
                        kani::assert(r.is_err(), "C07/C06/C03: context longer than 255 bytes accepted by try_sign_with_rng");
                        kani::assert(SIGN_CALLS == 0, "C07: signer ran although the context is too long");
                    } else if rng.fail {
                        kani::assert(r.is_err(), "C12: RNG failure not reported by try_sign_with_rng");
                        kani::assert(SIGN_CALLS == 0, "C12: signature computed although the RNG failed");
                    } else {
                        kani::assert(r.is_ok(), "C07: context of at most 255 bytes rejected");
                        kani::assert(SIGN_CALLS == 1, "wiring: SIGN_CALLS == 1");
                        kani::assert(REC_CTX_LEN == n && REC_CTX_PTR == ctx.as_ptr() as usize, "C07/C06/C03: context not passed through unchanged");
                        kani::assert(REC_MSG_LEN == 3 && REC_MSG_PTR == msg.as_ptr() as usize, "C03/C06: message not passed through unchanged");
                        kani::assert(REC_RND == rng.bytes, "C12: rnd is not the 32 bytes drawn");
                        kani::assert(REC_OID_LEN == 0 && REC_PHM_LEN == 0 && !REC_NIST, "C03: pure mode must use domain 0 with no OID / pre-hash");
                        kani::assert(REC_PARAMS == PARAMS && !REC_CTEST, "C03: parameter wiring");
                        kani::assert(REC_DIMS == [$k, $l, $ld4, $sig, $sk, $w1], "C03: size wiring");
                        kani::assert(REC_KEY_PTR == &key as *const S::PrivateKey as usize, "wiring: REC_KEY_PTR == &key as *const S::PrivateKey as usize");
                        kani::assert(r.unwrap()[0] == 0x5A, "wiring: r.unwrap()[0] == 0x5A");
                    }
                    if n <= 255 {
                        kani::assert(rng.calls == 1 && rng.last_len == 32, "C12: exactly one request of 32 bytes");
                    } else {
                        kani::assert(rng.calls <= 1, "wiring: rng.calls <= 1");
                    }
                }
                kani::cover!(n == 256 && r.is_err());
                kani::cover!(n == 255 && r.is_ok());
                kani::cover!(n == 512 && r.is_err());
                kani::cover!(n == 1024);
                kani::cover!(rng.fail && rng.partial == 31);
                core::mem::forget(key);
            }

            /// HashML-DSA signing wrapper
            #[kani::proof]
            #[kani::unwind(66)]
            #[kani::stub(zeroize::optimization_barrier, barrier_stub)]
            #[kani::stub(crate::ml_dsa::sign_internal, sign_internal_rec)]
            fn hash_sign() {
                let key = sk();
                let buf = [0u8; 1024];
                let n: usize = kani::any();
                kani::assume(n <= 1024);
                let ctx = &buf[..n];
                let mut rng = ModelRng::any();
                let msg: [u8; 3] = kani::any();
                let (ph, sel) = any_ph();
                unsafe {
                    sha2::model::OUT256 = kani::any();
                    sha2::model::OUT512 = kani::any();
                    sha3::model::TAPE[0] = kani::any();
                }
                let r = key.try_hash_sign_with_rng(&mut rng, &msg, ctx, &ph);
                unsafe {
                    if n > 255 {
                        kani::assert(r.is_err(), "C07/C06/C03: context longer than 255 bytes accepted by try_hash_sign_with_rng");
                        kani::assert(SIGN_CALLS == 0, "C07: signer ran although the context is too long");
                    } else if rng.fail {
                        kani::assert(r.is_err(), "C12: RNG failure not reported by try_hash_sign_with_rng");
                        kani::assert(SIGN_CALLS == 0, "C12: signature computed although the RNG failed");
                    } else {
                        kani::assert(r.is_ok(), "wiring: r.is_ok()");
                        kani::assert(SIGN_CALLS == 1, "wiring: SIGN_CALLS == 1");
                        kani::assert(REC_CTX_LEN == n && REC_CTX_PTR == ctx.as_ptr() as usize, "C07/C06/C03: context not passed through unchanged");
                        kani::assert(REC_RND == rng.bytes, "C12: rnd is not the 32 bytes drawn");
                        kani::assert(!REC_NIST && REC_PARAMS == PARAMS && !REC_CTEST, "wiring: !REC_NIST && REC_PARAMS == PARAMS && !REC_CTEST");
                        kani::assert(prehash_is_spec(sel, 3), "C03/C06: OID or pre-hash of the message differ from FIPS 204 Alg. 4");
                        if sel < 2 {
                            kani::assert(msg_prefix_is(&msg), "C03: the pre-hash absorbed something other than the message");
                        } else {
                            kani::assert(sha3::model::LOG[0][0] == msg[0] && sha3::model::LOG[0][1] == msg[1] && sha3::model::LOG[0][2] == msg[2], "wiring: sha3::model::LOG[0][0] == msg[0] && sha3::model::LOG[0][1] == msg[1] &");
                        }
                    }
                    if n <= 255 {
                        kani::assert(rng.calls == 1 && rng.last_len == 32, "C12: exactly one request of 32 bytes");
                    }
                }
                kani::cover!(n == 256 && r.is_err());
                kani::cover!(n == 255 && r.is_ok() && sel == 0);
                kani::cover!(r.is_ok() && sel == 1);
                kani::cover!(r.is_ok() && sel == 2);
                core::mem::forget(key);
            }

            /// pure-mode and pre-hash verification wrappers
            #[kani::proof]
            #[kani::unwind(66)]
            #[kani::stub(zeroize::optimization_barrier, barrier_stub)]
            #[kani::stub(crate::ml_dsa::verify_internal, verify_internal_rec)]
            fn verify() {
                let key = pk();
                let buf = [0u8; 1024];
                let n: usize = kani::any();
                kani::assume(n <= 1024);
                let ctx = &buf[..n];
                let msg: [u8; 3] = kani::any();
                let sig = [0u8; $sig];
                let hashed: bool = kani::any();
                let (ph, sel) = any_ph();
                unsafe {
                    VERIFY_ANSWER = kani::any();
                    sha2::model::OUT256 = kani::any();
                    sha2::model::OUT512 = kani::any();
                    sha3::model::TAPE[0] = kani::any();
                }
                let r = if hashed { key.hash_verify(&msg, &sig, ctx, &ph) } else { key.verify(&msg, &sig, ctx) };
                unsafe {
                    if n > 255 {
                        kani::assert(!r, "C07/C06/C02: verification accepted a context longer than 255 bytes");
                        kani::assert(VERIFY_CALLS == 0, "C07/C06/C02: verifier ran although the context is too long");
                    } else {
                        kani::assert(VERIFY_CALLS == 1, "wiring: VERIFY_CALLS == 1");
                        kani::assert(r == VERIFY_ANSWER, "C02: wrapper does not return Verify_internal's decision");
                        kani::assert(REC_CTX_LEN == n && REC_CTX_PTR == ctx.as_ptr() as usize, "C07/C06/C02: context not passed through unchanged");
                        kani::assert(REC_SIG_PTR == &sig as *const [u8; $sig] as usize && REC_KEY_PTR == &key as *const S::PublicKey as usize, "wiring: REC_SIG_PTR == &sig as *const [u8; $sig] as usize && REC_KEY_PTR == &k");
                        kani::assert(!REC_NIST && REC_PARAMS == PARAMS, "wiring: !REC_NIST && REC_PARAMS == PARAMS");
                        kani::assert(REC_DIMS == [$k, $l, $ld4, $pk, $sig, $w1], "C02: size wiring");
                        if hashed {
                            kani::assert(prehash_is_spec(sel, 3), "C02/C06: OID or pre-hash differ from FIPS 204 Alg. 5");
                        } else {
                            kani::assert(REC_OID_LEN == 0 && REC_PHM_LEN == 0, "C02: pure mode must use domain 0");
                            kani::assert(REC_MSG_LEN == 3 && REC_MSG_PTR == msg.as_ptr() as usize, "wiring: REC_MSG_LEN == 3 && REC_MSG_PTR == msg.as_ptr() as usize");
                        }
                    }
                }
                kani::cover!(n == 256 && !r);
                kani::cover!(n == 255 && r && hashed);
                kani::cover!(n == 255 && r && !hashed);
                kani::cover!(n == 768 && !r);
                core::mem::forget(key);
            }

            /// the deprecated internal (ACVP) interface keeps the same guard
            #[kani::proof]
            #[kani::unwind(66)]
            #[kani::stub(zeroize::optimization_barrier, barrier_stub)]
            #[kani::stub(crate::ml_dsa::sign_internal, sign_internal_rec)]
            #[kani::stub(crate::ml_dsa::verify_internal, verify_internal_rec)]
            #[allow(deprecated)]
            fn internal_iface() {
                let skey = sk();
                let pkey = pk();
                let buf = [0u8; 1024];
                let n: usize = kani::any();
                kani::assume(n <= 1024);
                let ctx = &buf[..n];
                let msg: [u8; 3] = kani::any();
                let rnd: [u8; 32] = kani::any();
                let sig = [0u8; $sig];
                unsafe {
                    VERIFY_ANSWER = kani::any();
                }
                let rs = S::_internal_sign(&skey, &msg, ctx, rnd);
                unsafe {
                    if n > 255 {
                        kani::assert(rs.is_err() && SIGN_CALLS == 0, "C07: _internal_sign accepted a long context");
                    } else {
                        kani::assert(rs.is_ok() && SIGN_CALLS == 1 && REC_NIST && REC_RND == rnd && REC_CTX_LEN == n, "wiring: rs.is_ok() && SIGN_CALLS == 1 && REC_NIST && REC_RND == rnd && REC_CTX");
                    }
                }
                let rv = S::_internal_verify(&pkey, &msg, &sig, ctx);
                unsafe {
                    if n > 255 {
                        kani::assert(!rv && VERIFY_CALLS == 0, "C07: _internal_verify accepted a long context");
                    } else {
                        kani::assert(VERIFY_CALLS == 1 && rv == VERIFY_ANSWER && REC_NIST, "wiring: VERIFY_CALLS == 1 && rv == VERIFY_ANSWER && REC_NIST");
                    }
                }
                kani::cover!(n == 256);
                kani::cover!(n == 255 && rv);
                core::mem::forget(skey);
                core::mem::forget(pkey);
            }

            /// key generation wrappers: RNG discipline and seed wiring
            #[kani::proof]
            #[kani::unwind(66)]
            #[kani::stub(zeroize::optimization_barrier, barrier_stub)]
            #[kani::stub(<crate::types::T as core::ops::Drop>::drop, t_drop_stub)]
            #[kani::stub(crate::ml_dsa::key_gen_internal, key_gen_internal_rec)]
            fn keygen() {
                let mut rng = ModelRng::any();
                let r = S::try_keygen_with_rng(&mut rng);
                unsafe {
                    if rng.fail {
                        kani::assert(r.is_err(), "C12: RNG failure not reported by try_keygen_with_rng");
                        kani::assert(KEYGEN_CALLS == 0, "C12: key generated although the RNG failed");
                    } else {
                        kani::assert(r.is_ok() && KEYGEN_CALLS == 1, "wiring: r.is_ok() && KEYGEN_CALLS == 1");
                        kani::assert(REC_XI == rng.bytes, "C04/C12: the seed is not the 32 bytes drawn");
                        kani::assert(REC_ETA == $eta && !REC_CTEST && REC_DIMS == [$k, $l, $pk, $sk, 0, 0], "C04: parameter wiring");
                    }
                    kani::assert(rng.calls == 1 && rng.last_len == 32, "C12: exactly one request of 32 bytes");
                }
                kani::cover!(rng.fail && rng.partial == 0);
                kani::cover!(rng.fail && rng.partial == 32);
                kani::cover!(!rng.fail);
                if let Ok((p, s)) = r {
                    core::mem::forget(p);
                    core::mem::forget(s);
                }
                // seeded variant
                let xi: [u8; 32] = kani::any();
                let (p2, s2) = S::KG::keygen_from_seed(&xi);
                unsafe {
                    kani::assert(REC_XI == xi && REC_ETA == $eta, "C04: keygen_from_seed does not pass the seed through");
                }
                core::mem::forget(p2);
                core::mem::forget(s2);
            }
        }
    };
}

const G2_88: i32 = (Q - 1) / 88;
const G2_32: i32 = (Q - 1) / 32;
// FIPS 204 Table 1 / Table 2 (transcribed): k, l, beta = tau*eta, gamma1, gamma2, omega, tau, eta, lambda/4, pk, sk, sig, |w1Encode|
wrapper_harnesses!(w44, ml_dsa_44, 4, 4, 78, 1 << 17, G2_88, 80, 39, 2, 32, 1312, 2560, 2420, 32 * 4 * 6);
wrapper_harnesses!(w65, ml_dsa_65, 6, 5, 196, 1 << 19, G2_32, 55, 49, 4, 48, 1952, 4032, 3309, 32 * 6 * 4);
wrapper_harnesses!(w87, ml_dsa_87, 8, 7, 120, 1 << 19, G2_32, 75, 60, 2, 64, 2592, 4896, 4627, 32 * 8 * 4);
