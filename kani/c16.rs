//! C16 — key material is erased when keys are dropped.  The real zeroize code runs (volatile writes);
//! only the inline-asm compiler barrier is stubbed.
use super::common::*;
use crate::types::{PrivateKey, PublicKey, R, T};
use core::mem::ManuallyDrop;
use zeroize::Zeroize;

/// static witness: these types implement ZeroizeOnDrop (a removed derive stops the harness crate from compiling)
fn zod<X: zeroize::ZeroizeOnDrop>() {}
fn trait_witness() {
    zod::<PrivateKey<1, 1>>();
    zod::<PublicKey<1, 1>>();
    zod::<crate::ml_dsa_44::PrivateKey>();
    zod::<crate::ml_dsa_65::PublicKey>();
    zod::<R>();
    zod::<T>();
}

#[kani::proof]
#[kani::unwind(258)]
#[kani::stub(zeroize::optimization_barrier, barrier_stub)]
fn c16_drop_r() {
    trait_witness();
    let mut md = ManuallyDrop::new(R(kani::any()));
    let p = &md.0 as *const [i32; 256];
    assert!(core::mem::size_of::<R>() == 1024);
    unsafe { ManuallyDrop::drop(&mut md) };
    let i: usize = kani::any();
    kani::assume(i < 256);
    kani::assert(unsafe { (*p)[i] } == 0, "C16: a coefficient of R survives drop");
}

#[kani::proof]
#[kani::unwind(258)]
#[kani::stub(zeroize::optimization_barrier, barrier_stub)]
fn c16_drop_t() {
    let mut md = ManuallyDrop::new(T(kani::any()));
    let p = &md.0 as *const [i32; 256];
    assert!(core::mem::size_of::<T>() == 1024);
    unsafe { ManuallyDrop::drop(&mut md) };
    let i: usize = kani::any();
    kani::assume(i < 256);
    kani::assert(unsafe { (*p)[i] } == 0, "C16: a coefficient of T survives drop");
}

/// the byte-array leaf used by the derived Zeroize of the key structs
#[kani::proof]
#[kani::unwind(66)]
#[kani::stub(zeroize::optimization_barrier, barrier_stub)]
fn c16_zeroize_bytes() {
    let mut a: [u8; 64] = kani::any();
    let mut b: [u8; 32] = kani::any();
    a.zeroize();
    b.zeroize();
    let i: usize = kani::any();
    kani::assume(i < 64);
    kani::assert(a[i] == 0 && b[i % 32] == 0, "C16: byte array not erased by zeroize()");
}

/// a vector of polynomials is erased element by element (the [T; N] leaf of the derived Zeroize)
#[kani::proof]
#[kani::unwind(258)]
#[kani::stub(zeroize::optimization_barrier, barrier_stub)]
fn c16_zeroize_vec_t() {
    let mut md = ManuallyDrop::new([T(kani::any()), T(kani::any())]);
    let p0 = &md[0].0 as *const [i32; 256];
    let p1 = &md[1].0 as *const [i32; 256];
    md.zeroize();
    let i: usize = kani::any();
    kani::assume(i < 256);
    kani::assert(unsafe { (*p0)[i] == 0 && (*p1)[i] == 0 }, "C16: [T; 2] not erased by zeroize()");
}

/// whole private key object (reduced K = L = 1), typed reads of every field  — thorough tier (about 17 min of symbolic execution)
#[kani::proof]
#[kani::unwind(258)]
#[kani::stub(zeroize::optimization_barrier, barrier_stub)]
fn c16_drop_sk_11() {
    let sk: PrivateKey<1, 1> = PrivateKey {
        rho: kani::any(),
        cap_k: kani::any(),
        tr: kani::any(),
        s_1_hat_mont: [T(kani::any())],
        s_2_hat_mont: [T(kani::any())],
        t_0_hat_mont: [T(kani::any())],
    };
    let mut md = ManuallyDrop::new(sk);
    let p_rho = &md.rho as *const [u8; 32];
    let p_k = &md.cap_k as *const [u8; 32];
    let p_tr = &md.tr as *const [u8; 64];
    let p_s1 = &md.s_1_hat_mont[0].0 as *const [i32; 256];
    let p_s2 = &md.s_2_hat_mont[0].0 as *const [i32; 256];
    let p_t0 = &md.t_0_hat_mont[0].0 as *const [i32; 256];
    assert!(core::mem::size_of::<PrivateKey<1, 1>>() == 32 + 32 + 64 + 3 * 1024);
    unsafe { ManuallyDrop::drop(&mut md) };
    let i: usize = kani::any();
    kani::assume(i < 32);
    let j: usize = kani::any();
    kani::assume(j < 64);
    let n: usize = kani::any();
    kani::assume(n < 256);
    unsafe {
        kani::assert((*p_rho)[i] == 0, "C16: rho survives drop of the private key");
        kani::assert((*p_k)[i] == 0, "C16: K survives drop of the private key");
        kani::assert((*p_tr)[j] == 0, "C16: tr survives drop of the private key");
        kani::assert((*p_s1)[n] == 0 && (*p_s2)[n] == 0 && (*p_t0)[n] == 0, "C16: a secret polynomial survives drop of the private key");
    }
}

#[kani::proof]
#[kani::unwind(258)]
#[kani::stub(zeroize::optimization_barrier, barrier_stub)]
fn c16_drop_pk_11() {
    let pk: PublicKey<1, 1> = PublicKey { rho: kani::any(), tr: kani::any(), t1_d2_hat_mont: [T(kani::any())] };
    let mut md = ManuallyDrop::new(pk);
    let p_rho = &md.rho as *const [u8; 32];
    let p_tr = &md.tr as *const [u8; 64];
    let p_t1 = &md.t1_d2_hat_mont[0].0 as *const [i32; 256];
    assert!(core::mem::size_of::<PublicKey<1, 1>>() == 32 + 64 + 1024);
    unsafe { ManuallyDrop::drop(&mut md) };
    let i: usize = kani::any();
    kani::assume(i < 32);
    let j: usize = kani::any();
    kani::assume(j < 64);
    let n: usize = kani::any();
    kani::assume(n < 256);
    unsafe {
        kani::assert((*p_rho)[i] == 0, "C16: rho survives drop of the public key");
        kani::assert((*p_tr)[j] == 0, "C16: tr survives drop of the public key");
        kani::assert((*p_t1)[n] == 0, "C16: t1 survives drop of the public key");
    }
}
