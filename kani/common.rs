//! Stubs and helpers shared by the harnesses.
use crate::types::{R, T};

/// `zeroize::optimization_barrier` is inline asm (unsupported by Kani); it has no semantics.
pub(crate) fn barrier_stub<X: ?Sized>(_v: &X) {}
/// no-op replacements of the zeroising `Drop` of the polynomial types (NOT used by C16)
pub(crate) fn r_drop_stub(_r: &mut R) {}
pub(crate) fn t_drop_stub(_r: &mut T) {}

/// Fault-injecting model of the caller's random generator.
pub(crate) struct ModelRng {
    /// set as soon as one request has reported failure (read by the harness after the call)
    pub fail: bool,
    /// request number i (0-based, i < 8) fails iff bit i is set: every fault point, also "fails again on a retry"
    pub fail_mask: u8,
    /// the error value handed back: any non-zero code (OS errno range, rand_core's internal and custom ranges)
    pub code: u32,
    pub partial: usize,
    pub bytes: [u8; 32],
    pub calls: u32,
    pub last_len: usize,
}
impl ModelRng {
    pub fn any() -> Self {
        let r = ModelRng { fail: false, fail_mask: kani::any(), code: kani::any(), partial: kani::any(), bytes: kani::any(), calls: 0, last_len: 0 };
        kani::assume(r.partial <= 32);
        kani::assume(r.code != 0);
        r
    }
}
impl rand_core::RngCore for ModelRng {
    fn next_u32(&mut self) -> u32 {
        kani::assert(false, "C12: infallible RNG interface used (next_u32)");
        0
    }
    fn next_u64(&mut self) -> u64 {
        kani::assert(false, "C12: infallible RNG interface used (next_u64)");
        0
    }
    fn fill_bytes(&mut self, _d: &mut [u8]) { kani::assert(false, "C12: infallible RNG interface used (fill_bytes)"); }
    fn try_fill_bytes(&mut self, d: &mut [u8]) -> Result<(), rand_core::Error> {
        let idx = if self.calls < 7 { self.calls } else { 7 };
        let fails = (self.fail_mask >> idx) & 1 == 1;
        self.calls += 1;
        self.last_len = d.len();
        let n = if fails { self.partial } else { 32 };
        let mut i = 0;
        while i < n && i < d.len() {
            d[i] = self.bytes[i];
            i += 1;
        }
        if fails {
            self.fail = true;
            Err(rand_core::Error::from(core::num::NonZeroU32::new(self.code).unwrap()))
        } else {
            Ok(())
        }
    }
}
impl rand_core::CryptoRng for ModelRng {}
