//! Stubs and helpers shared by the harnesses.
use crate::types::{R, T};

/// `zeroize::optimization_barrier` is inline asm (unsupported by Kani); it has no semantics.
pub(crate) fn barrier_stub<X: ?Sized>(_v: &X) {}
/// no-op replacements of the zeroising `Drop` of the polynomial types (NOT used by C16)
pub(crate) fn r_drop_stub(_r: &mut R) {}
pub(crate) fn t_drop_stub(_r: &mut T) {}

/// Fault-injecting model of the caller's random generator.
pub(crate) struct ModelRng {
    pub fail: bool,
    pub partial: usize,
    pub bytes: [u8; 32],
    pub calls: u32,
    pub last_len: usize,
}
impl ModelRng {
    pub fn any() -> Self {
        let r = ModelRng { fail: kani::any(), partial: kani::any(), bytes: kani::any(), calls: 0, last_len: 0 };
        kani::assume(r.partial <= 32);
        r
    }
}
impl rand_core::RngCore for ModelRng {
    fn next_u32(&mut self) -> u32 {
        kani::assert(false, "C12: infallible RNG interface used (next_u32)");
        0
    }
    fn next_u64(&mut self) -> u64 {
        kani::assert(false, "C12: infallible RNG interface used (next_u64)");
        0
    }
    fn fill_bytes(&mut self, _d: &mut [u8]) { kani::assert(false, "C12: infallible RNG interface used (fill_bytes)"); }
    fn try_fill_bytes(&mut self, d: &mut [u8]) -> Result<(), rand_core::Error> {
        self.calls += 1;
        self.last_len = d.len();
        let n = if self.fail { self.partial } else { 32 };
        let mut i = 0;
        while i < n && i < d.len() {
            d[i] = self.bytes[i];
            i += 1;
        }
        if self.fail {
            Err(rand_core::Error::from(core::num::NonZeroU32::new(rand_core::Error::CUSTOM_START).unwrap()))
        } else {
            Ok(())
        }
    }
}
impl rand_core::CryptoRng for ModelRng {}
