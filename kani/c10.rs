//! C10 — malformed private keys are rejected at deserialisation (eta sections).
use super::common::*;
use super::spec;
use crate::conversion::bit_unpack;
use crate::types::R;

/// all fields of the 256-coefficient section are <= 2*eta
fn all_fields_in_range(v: &[u8], c: usize, eta: i64) -> bool {
    let mut ok = true;
    let mut i = 0;
    while i < 256 {
        ok &= spec::field(v, c, i) <= 2 * eta;
        i += 1;
    }
    ok
}

/// every 96-byte string: Ok <=> every 3-bit field <= 4; and on Ok coefficient i = 2 - field(i)
#[kani::proof]
#[kani::unwind(258)]
#[kani::stub(zeroize::optimization_barrier, barrier_stub)]
#[kani::stub(<crate::types::R as core::ops::Drop>::drop, r_drop_stub)]
fn c10_bit_unpack_eta2() {
    let v: [u8; 96] = kani::any();
    let i: usize = kani::any();
    kani::assume(i < 256);
    let good = all_fields_in_range(&v, 3, 2);
    let r = bit_unpack(&v, 2, 2);
    match r {
        Ok(w) => {
            kani::assert(good, "C10: accepted a section with a field > 2*eta");
            assert!(w.0[i] as i64 == 2 - spec::field(&v, 3, i));
            kani::cover!(w.0[i] == -2);
            core::mem::forget(w);
        }
        Err(_) => {
            kani::assert(!good, "C10: rejected a section with all fields in range");
            kani::cover!(true);
        }
    }
}

/// every 128-byte string: Ok <=> every 4-bit field <= 8
#[kani::proof]
#[kani::unwind(258)]
#[kani::stub(zeroize::optimization_barrier, barrier_stub)]
#[kani::stub(<crate::types::R as core::ops::Drop>::drop, r_drop_stub)]
fn c10_bit_unpack_eta4() {
    let v: [u8; 128] = kani::any();
    let i: usize = kani::any();
    kani::assume(i < 256);
    let good = all_fields_in_range(&v, 4, 4);
    let r = bit_unpack(&v, 4, 4);
    match r {
        Ok(w) => {
            kani::assert(good, "C10: accepted a section with a field > 2*eta");
            assert!(w.0[i] as i64 == 4 - spec::field(&v, 4, i));
            kani::cover!(w.0[i] == -4);
            core::mem::forget(w);
        }
        Err(_) => {
            kani::assert(!good, "C10: rejected a section with all fields in range");
            kani::cover!(true);
        }
    }
}
