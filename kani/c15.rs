//! C15 — coefficient arithmetic is exact on its whole domain (E1 part).
use super::common::*;
use super::spec;
use crate::conversion::{coeff_from_half_byte, coeff_from_three_bytes};
use crate::helpers::*;
use crate::high_low::*;
use crate::types::R;
use crate::Q;

const G44: i32 = (Q - 1) / 88;
const G65: i32 = (Q - 1) / 32;

fn any_gamma2() -> i32 { if kani::any() { G44 } else { G65 } }

#[kani::proof]
fn c15_partial_reduce32() {
    let a: i32 = kani::any();
    kani::assume(a > -2_143_289_344 && a < 2_143_289_344);
    let r = partial_reduce32(a);
    assert!((a as i64 - r as i64) % spec::Q == 0);
    assert!(r > -Q && r < Q);
    kani::cover!(a == 2_143_289_343);
}

#[kani::proof]
fn c15_full_reduce32() {
    let a: i32 = kani::any();
    kani::assume(a > -2_143_289_344 && a < 2_143_289_344);
    let r = full_reduce32(a);
    assert!(r as i64 == spec::md(a as i64, spec::Q));
    kani::cover!(r == 0 && a != 0);
}

#[kani::proof]
fn c15_center_mod() {
    let a: i32 = kani::any();
    kani::assume(a > -2_143_289_344 && a < 2_143_289_344);
    let r = center_mod(a);
    assert!(r as i64 == spec::mod_pm(a as i64, spec::Q));
    kani::cover!(r == Q / 2);
    kani::cover!(r == -(Q / 2));
}

#[kani::proof]
fn c15_decompose_zq() {
    let g2 = any_gamma2();
    let r: i32 = kani::any();
    kani::assume(r >= 0 && r < Q);
    let (r1, r0) = decompose(g2, r);
    let (s1, s0) = spec::decompose(g2 as i64, r as i64);
    assert!(r1 as i64 == s1);
    assert!(r0 as i64 == s0);
    assert!(high_bits(g2, r) as i64 == s1);
    assert!(low_bits(g2, r) as i64 == s0);
    kani::cover!(r1 == 0 && r0 == -g2);
}

/// decompose on every i32 representative that `full_reduce32` documents as admissible
#[kani::proof]
fn c15_decompose_i32() {
    let g2 = any_gamma2();
    let r: i32 = kani::any();
    kani::assume(r > -2_143_289_344 && r < 2_143_289_344);
    let (r1, r0) = decompose(g2, r);
    let (s1, s0) = spec::decompose(g2 as i64, r as i64);
    assert!(r1 as i64 == s1);
    assert!(r0 as i64 == s0);
}

/// MakeHint for the argument shapes its only caller supplies: z = Q - ct0 with ct0 in [0,q),
/// r = partial_reduce32(..) in (-Q, Q)
#[kani::proof]
fn c15_make_hint() {
    let g2 = any_gamma2();
    let z: i32 = kani::any();
    let r: i32 = kani::any();
    kani::assume(z >= 1 && z <= Q);
    kani::assume(r > -Q && r < Q);
    let h = make_hint(g2, z, r);
    assert!(h == spec::make_hint(g2 as i64, z as i64, r as i64));
    kani::cover!(h);
    kani::cover!(!h);
}

#[kani::proof]
fn c15_use_hint() {
    let g2 = any_gamma2();
    let h: i32 = kani::any();
    kani::assume(h == 0 || h == 1);
    let r: i32 = kani::any();
    kani::assume(r >= 0 && r < Q);
    let u = use_hint(g2, h, r);
    assert!(u as i64 == spec::use_hint(g2 as i64, h as i64, r as i64));
    kani::cover!(h == 1 && u == 0);
    kani::cover!(h == 1 && u == 43);
    kani::cover!(h == 1 && u == 15);
}

#[kani::proof]
fn c15_coeff_from_three_bytes() {
    let b: [u8; 3] = kani::any();
    let r = coeff_from_three_bytes::<false>(b);
    let s = spec::coeff_from_three_bytes(b[0], b[1], b[2]);
    match (r, s) {
        (Ok(x), Some(y)) => assert!(x as i64 == y),
        (Err(_), None) => {}
        _ => kani::assert(false, "accept/reject mismatch"),
    }
    kani::cover!(r.is_err());
    kani::cover!(r == Ok(Q - 1));
}

#[kani::proof]
fn c15_coeff_from_half_byte() {
    let eta: i32 = if kani::any() { 2 } else { 4 };
    let b: u8 = kani::any();
    kani::assume(b < 16);
    let r = coeff_from_half_byte::<false>(eta, b);
    let s = spec::coeff_from_half_byte(eta as i64, b);
    match (r, s) {
        (Ok(x), Some(y)) => assert!(x as i64 == y),
        (Err(_), None) => {}
        _ => kani::assert(false, "accept/reject mismatch"),
    }
    kani::cover!(r.is_err() && eta == 2);
    kani::cover!(r.is_err() && eta == 4);
}

/// range half of mont_reduce (its own debug assertions + cast) over the whole documented domain;
/// the congruence half is decided by E2 (CBMC's SAT back end stalls on it).
#[kani::proof]
fn c15_mont_reduce_range() {
    let a: i64 = kani::any();
    kani::assume(a >= -17_996_808_479_301_632 && a <= 17_996_808_470_921_215);
    let r = mont_reduce(a);
    assert!(r > -Q && r < Q);
}

/// Power2Round through the real (vector) function, one symbolic coefficient at a symbolic position
#[kani::proof]
#[kani::unwind(258)]
#[kani::stub(zeroize::optimization_barrier, barrier_stub)]
#[kani::stub(<crate::types::R as core::ops::Drop>::drop, r_drop_stub)]
fn c15_power2round() {
    let r: i32 = kani::any();
    kani::assume(r >= 0 && r < Q);
    let p: usize = kani::any();
    kani::assume(p < 256);
    let mut w = R([0i32; 256]);
    w.0[p] = r;
    let (r1, r0) = power2round::<1>(&[w]);
    let (s1, s0) = spec::power2round(r as i64);
    assert!(r1[0].0[p] as i64 == s1);
    assert!(r0[0].0[p] as i64 == s0);
    kani::cover!(r0[0].0[p] == 4096);
    kani::cover!(r0[0].0[p] == -4095);
}

