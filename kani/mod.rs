//! In-crate Kani harnesses for fips204, injected (in a scratch copy only) as
//! `#[cfg(kani)] #[path = ".../kani/mod.rs"] mod verif_kani;`
#![allow(warnings, unused_imports, missing_docs, dead_code, unused_results, unsafe_code)]
#![allow(trivial_casts, trivial_numeric_casts, unused_qualifications, unreachable_pub)]
#![allow(single_use_lifetimes, elided_lifetimes_in_paths, absolute_paths_not_starting_with_crate)]
#![allow(let_underscore_drop, variant_size_differences, static_mut_refs)]
#![allow(clippy::all, clippy::pedantic)]
#![allow(unsafe_op_in_unsafe_fn)]

pub(crate) mod common;
pub(crate) mod spec;
mod c01;
mod c08;
mod c10;
mod wrappers;
mod c15;
mod c16;
