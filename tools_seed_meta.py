#!/usr/bin/env python3
"""fold what was run against each seeded change into seeded/<id>/meta.json (key `verif`): the confirmation in a scratch
worktree (tools_confirm_seed.sh) and the official runs with the patch applied to /repo itself (tools_official_seeds.sh ->
runs.log).  usage: tools_seed_meta.py [confirm-log ...]"""
import glob, json, os, re, sys
HERE = os.path.dirname(os.path.abspath(__file__))
confirm = {}
for p in sys.argv[1:]:
    for l in open(p, errors='replace'):
        m = re.match(r'^seed=(\S+) applies=(\S+) baseline_with_patch=\[(.*?)\] demo_with_patch=\[(.*?)\] demo_without_patch=\[(.*?)\]', l)
        if m:
            confirm[m.group(1)] = {'patch_applies_to_HEAD': m.group(2) == 'yes', 'baseline_with_patch': m.group(3), 'demo_with_patch': m.group(4).strip(), 'demo_without_patch': m.group(5).strip()}
for d in sorted(glob.glob(os.path.join(HERE, 'seeded', '*'))):
    sid = os.path.basename(d)
    mp = os.path.join(d, 'meta.json')
    if not os.path.exists(mp):
        continue
    meta = json.load(open(mp))
    v = meta.get('verif', {})
    if sid in confirm:
        v['confirmed_in_scratch_worktree'] = dict(confirm[sid], cmd=f'./tools_confirm_seed.sh seeded/{sid}')
    runs = []
    rl = os.path.join(d, 'runs.log')
    if os.path.exists(rl):
        for l in open(rl, errors='replace'):
            m = re.match(r'^(\S+) seed=(\S+) applied-to=/repo check=(\S+) exit=(\d+) :: (.*?) :: (.*)$', l.strip())
            if m:
                runs.append({'when': m.group(1), 'cmd': f'git -C /repo apply seeded/{sid}/patch.diff && ./check {m.group(3)} ; git -C /repo checkout -- .', 'check': m.group(3), 'exit': int(m.group(4)),
                             'outcome': m.group(5).split(' replay=')[0].strip(), 'what': m.group(6).replace('what:', '').strip()[:400]})
    if runs:
        v['official_runs_patch_applied_to_repo'] = runs
        v['detected_by'] = sorted({r['check'] for r in runs if r['exit'] == 1 and r['outcome'].startswith('VIOLATION')})
    if v:
        meta['verif'] = v
        json.dump(meta, open(mp, 'w'), indent=1)
        print(sid, 'confirmed' if 'confirmed_in_scratch_worktree' in v else '-', [(r['check'], r['exit']) for r in runs])
